#!/bin/bash
# Single entry point of the runtime monitors.
#   ./run.sh <Cxx> [quick|thorough] [--replay <witness.json>]
#   ./run.sh --setup          warm the Go build cache (plain and -race binaries)
# Environment: VERIF_SEED (default 1), VERIF_TIER (used when no tier argument is given),
#              VERIF_REPO (default /repo; only the self-test points it at a mutated scratch copy),
#              VERIF_WORKERS (default: all cores), VERIF_COVER (directory for Go coverage counters of the library; self-test only),
#              VERIF_OUT (self-test only: write evidence/ and replay/ there instead of next to this script, so that runs against
#              seeded changes do not overwrite the evidence of the real tree).
# Every invocation rebuilds the monitor binary from the repository's current working tree.
set -u
VERIF_DIR="$(cd "$(dirname "${BASH_SOURCE[0]}")" && pwd)"
export GOFLAGS=-mod=mod GOPROXY=off GOSUMDB=off GOTOOLCHAIN=local
REPO="${VERIF_REPO:-/repo}"
SEED="${VERIF_SEED:-1}"

BUILD="$(mktemp -d "${TMPDIR:-/tmp}/verifmon.XXXXXX")"
cleanup() { rm -rf "$BUILD"; }
trap cleanup EXIT

build() { # $1 = output, extra go build flags follow
  local out="$1"; shift
  cat > "$BUILD/go.mod" <<EOF
module verifmon

go 1.22

require github.com/trajectoryjp/spatial_id_go/v4 v4.0.0

replace github.com/trajectoryjp/spatial_id_go/v4 => $REPO
EOF
  cp "$REPO/go.sum" "$BUILD/go.sum"
  (cd "$VERIF_DIR/harness" && go build -modfile="$BUILD/go.mod" -tags verif "$@" -o "$out" ./cmd/mon) 2> "$BUILD/build.log"
  local rc=$?
  if [ $rc -ne 0 ]; then
    echo "BUILD FAILED (harness against $REPO):" >&2
    cat "$BUILD/build.log" >&2
    exit 3
  fi
}

if [ "${1:-}" = "--setup" ]; then
  build "$BUILD/mon"
  build "$BUILD/mon-race" -race
  "$BUILD/mon" --list >/dev/null && echo "setup ok: harness builds (plain and -race) against $REPO"
  exit $?
fi

PROP="${1:?usage: run.sh <Cxx> [quick|thorough] [--replay file]}"; shift
TIER="${VERIF_TIER:-quick}"
REPLAY=""
while [ $# -gt 0 ]; do
  case "$1" in
    quick|thorough) TIER="$1";;
    --replay) shift; REPLAY="${1:?--replay needs a file}";;
    *) echo "unknown argument $1" >&2; exit 2;;
  esac
  shift
done

RACE=""
case "$PROP" in C19) RACE="-race";; esac
COVER=""
if [ -n "${VERIF_COVER:-}" ]; then # selftest/coverage.sh: which library statements does the workload reach
  COVER="-cover -covermode=atomic -coverpkg=all"
  mkdir -p "$VERIF_COVER"; export GOCOVERDIR="$VERIF_COVER"
fi
build "$BUILD/mon" $RACE $COVER

mkdir -p "$BUILD/work"
if [ -n "$REPLAY" ]; then
  "$BUILD/mon" --prop "$PROP" --replay "$REPLAY" --verif "$VERIF_DIR"
  exit $?
fi
export GORACE="halt_on_error=0 exitcode=0 log_path=$BUILD/work/race"
"$BUILD/mon" --prop "$PROP" --tier "$TIER" --seed "$SEED" --verif "$VERIF_DIR" --work "$BUILD/work" \
  --workers "${VERIF_WORKERS:-0}" --repo "$REPO"
exit $?
