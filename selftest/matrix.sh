#!/bin/bash
# selftest/matrix.sh [seed ids...] — run every check's quick command against every seeded change, each applied to a
# scratch worktree of /repo (VERIF_REPO), never to /repo itself. Writes selftest/matrix.tsv (seed, check, verdict).
cd "$(dirname "$0")/.." || exit 2
V=$PWD
seeds=("$@"); [ ${#seeds[@]} -eq 0 ] && seeds=($(ls seeded))
checks=${CHECKS:-$(seq -w 1 20 | sed 's/^/C/')}
out=${OUT:-$V/selftest/matrix.tsv}
: > "$out"
for s in "${seeds[@]}"; do
  WT=$(mktemp -d /tmp/mxwt.XXXXXX); rmdir "$WT"
  git -C /repo worktree add -q --detach "$WT" HEAD || exit 2
  if ! git -C "$WT" apply "$V/seeded/$s/patch.diff"; then echo -e "$s\t-\tPATCH-DOES-NOT-APPLY" >> "$out"; git -C /repo worktree remove --force "$WT"; continue; fi
  for c in $checks; do
    o=$(VERIF_OUT="$WT.out" VERIF_REPO="$WT" timeout 1500 "$V/run.sh" $c quick 2>&1); rc=$?
    if [ $rc -eq 1 ] && echo "$o" | grep -q '^VIOLATION'; then v=CAUGHT; cls=$(echo "$o" | grep -m1 -o 'class=[^ ]*'); else v="missed(rc=$rc)"; cls=""; fi
    echo -e "$s\t$c\t$v\t$cls" >> "$out"
  done
  git -C /repo worktree remove --force "$WT"; git -C /repo worktree prune; rm -rf "$WT.out"
done
