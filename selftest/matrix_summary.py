#!/usr/bin/env python3
"""selftest/matrix_summary.py <matrix.tsv> — print a markdown table: seeded change, its property, what it needs, which checks catch it."""
import sys, json, collections, os
rows = [l.rstrip("\n").split("\t") for l in open(sys.argv[1]) if l.strip()]
caught = collections.defaultdict(list); cls = {}
for r in rows:
    if len(r) >= 3 and r[2] == "CAUGHT":
        caught[r[0]].append(r[1]); cls.setdefault((r[0], r[1]), r[3] if len(r) > 3 else "")
seeds = sorted({r[0] for r in rows})
base = os.path.join(os.path.dirname(os.path.abspath(__file__)), "..", "seeded")
print("| seeded change | property | needs in order to manifest | caught by (quick) | first class reported by its own check |")
print("|---|---|---|---|---|")
missed = []
for s in seeds:
    try:
        m = json.load(open(os.path.join(base, s, "meta.json")))
    except Exception:
        m = {}
    prop = m.get("property", s.split("-")[0])
    need = (m.get("needs_to_manifest") or "").replace("|", "/").replace("\n", " ")
    if len(need) > 160: need = need[:157] + "..."
    own = cls.get((s, prop), "")
    c = ", ".join(caught.get(s, [])) or "**none**"
    if prop not in caught.get(s, []): missed.append(s)
    print(f"| {s} | {prop} | {need} | {c} | {own.replace('class=','')} |")
print()
print(f"{len(seeds)} seeded changes; {len(seeds)-len(missed)} caught by the check of their own property" + (f"; not caught by their own check: {', '.join(missed)}" if missed else ""))
