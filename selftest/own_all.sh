#!/bin/bash
# selftest/own_all.sh [pattern] — every seeded change (or those matching the grep pattern) against the quick check of
# its own property, four at a time; writes selftest/own_all.tsv (seed, check, tier, rc, first class, VIOLATION lines).
cd "$(dirname "$0")/.." || exit 2
pat=${1:-.}
ls seeded | grep -E "$pat" | xargs -P ${PAR:-4} -I{} selftest/own.sh {} | sort | sed -E 's/ +/\t/g' > selftest/own_all.tsv
awk -F'\t' '{n++; if ($4=="rc=1") c++} END {print n" seeded changes, "c" caught by the quick check of their own property"}' selftest/own_all.tsv
awk -F'\t' '$4!="rc=1" {print "not caught by own quick check: "$1" ("$4")"}' selftest/own_all.tsv
