#!/bin/bash
# selftest/confirm_seed.sh <candidate dir with patch.diff, demo_test.go, meta.json>
# Confirms in a scratch worktree of /repo (removed afterwards) that the change (a) applies and compiles,
# (b) passes the unedited test suite, (c) makes the demonstration fail, (d) the demonstration passes without it.
set -u
D="$1"
export GOFLAGS=-mod=mod GOPROXY=off GOSUMDB=off GOTOOLCHAIN=local
WT=$(mktemp -d /tmp/seedwt.XXXXXX); rmdir "$WT"
# several confirmations may run at once: "worktree add" takes a repository lock, so retry
for try in 1 2 3 4 5 6; do git -C /repo worktree add -q --detach "$WT" HEAD 2>/dev/null && break; sleep $((try*2)); done
[ -d "$WT" ] || { echo "RESULT $D: could not create a scratch worktree"; exit 2; }
trap 'git -C /repo worktree remove --force "$WT" >/dev/null 2>&1; git -C /repo worktree prune' EXIT
demo_dir=$(python3 -c "import json,sys;print(json.load(open('$D/meta.json'))['demo_dir'])")
demo_dir=${demo_dir%/}
cd "$WT" || exit 2
git apply "$D/patch.diff" || { echo "RESULT $D: patch does not apply"; exit 1; }
go build ./... || { echo "RESULT $D: does not compile"; exit 1; }
if ! timeout 900 go test -vet=off -count=1 ./... >/tmp/seed_suite.log 2>&1; then echo "RESULT $D: existing suite FAILS with the patch"; grep -m3 -- '--- FAIL' /tmp/seed_suite.log; exit 1; fi
cp "$D/demo_test.go" "$demo_dir/zz_seed_demo_test.go"
race=""; grep -q '"C19"' "$D/meta.json" && race="-race"
if timeout 900 go test $race -vet=off -count=1 "./$demo_dir/" >/tmp/seed_demo1.log 2>&1; then echo "RESULT $D: demo PASSES with the patch (should fail)"; exit 1; fi
git checkout -q -- . 
if ! timeout 900 go test $race -vet=off -count=1 "./$demo_dir/" >/tmp/seed_demo2.log 2>&1; then echo "RESULT $D: demo FAILS without the patch"; tail -5 /tmp/seed_demo2.log; exit 1; fi
echo "RESULT $D: confirmed (suite passes with patch, demo fails with patch, demo passes without)"
