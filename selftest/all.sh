#!/bin/bash
# selftest/all.sh [tier] — run every check once (VERIF_SEED honoured) and print one line per check.
TIER="${1:-quick}"
cd "$(dirname "$0")/.." || exit 2
rc_all=0
for i in $(seq -w 1 20); do
  s=$(date +%s.%N)
  out=$(./run.sh C$i "$TIER" 2>&1); rc=$?
  e=$(date +%s.%N)
  printf "C%s rc=%d %6.1fs  %s\n" "$i" "$rc" "$(echo "$e - $s" | bc)" "$(echo "$out" | head -1 | cut -c1-160)"
  echo "$out" | grep -E '^(VIOLATION|INCONCLUSIVE|KNOWN-FINDING)' | cut -c1-200
  [ $rc -ne 0 ] && rc_all=1
done
exit $rc_all
