#!/bin/bash
# selftest/coverage.sh [tier] — statement coverage of the library (non-test code of /repo) reached by the monitors'
# workloads: every check is run once with a coverage-instrumented build; prints per-package and per-function figures
# and writes the uncovered blocks to selftest/uncovered.txt. This measures reach, it decides nothing.
cd "$(dirname "$0")/.." || exit 2
export GOFLAGS=-mod=mod GOPROXY=off GOSUMDB=off GOTOOLCHAIN=local
tier=${1:-quick}
D=$(mktemp -d /tmp/verifcov.XXXXXX)
trap 'rm -rf "$D"' EXIT
for c in ${CHECKS:-$(seq -w 1 20 | sed 's/^/C/')}; do
  VERIF_COVER=$D/$c ./run.sh $c $tier >/dev/null 2>&1
  echo "$c rc=$? $(ls $D/$c 2>/dev/null | wc -l) counter files"
done
dirs=$(ls -d $D/C* | paste -sd,)
go tool covdata textfmt -i=$dirs -pkg=$(cd /repo && go list ./... | paste -sd,) -o $D/all.txt
(cd /repo && go tool cover -func=$D/all.txt) > selftest/coverage_func.txt
tail -1 selftest/coverage_func.txt
awk -F'[ :]' 'NR>1 && $NF==0 {print $1":"$2}' $D/all.txt | sort -u > selftest/uncovered.txt
wc -l selftest/uncovered.txt
