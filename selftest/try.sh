#!/bin/bash
# selftest/try.sh <patch.diff | revert:<sha>> <Cxx> [tier]   — apply a change to /repo, run one check, undo the change.
# Prints the check's last lines and CAUGHT / MISSED. /repo is restored with `git checkout -- .` afterwards.
set -u
P="$1"; PROP="$2"; TIER="${3:-quick}"
cd /repo || exit 2
if [ -n "$(git status --porcelain)" ]; then echo "/repo not clean" >&2; exit 2; fi
trap 'git -C /repo checkout -- . ; git -C /repo clean -fdq' EXIT INT TERM
case "$P" in
  revert:*) git show -R "${P#revert:}" -- . ':!*_test.go' | git apply || { echo "cannot revert" >&2; exit 2; } ;;
  *) git apply "$P" || { echo "cannot apply $P" >&2; exit 2; } ;;
esac
TO=$(mktemp -d /tmp/tryout.XXXXXX)
OUT=$(cd /verif && VERIF_OUT="$TO" timeout ${TRY_TIMEOUT:-1500} ./run.sh "$PROP" "$TIER" 2>&1); RC=$?
rm -rf "$TO"
git -C /repo checkout -- . ; git -C /repo clean -fdq
echo "$OUT" | grep -v '^VIOLATION' | head -${LINES_SHOWN:-6}
echo "$OUT" | grep -c '^VIOLATION' | sed 's/^/violation lines: /'
if [ $RC -eq 1 ] && echo "$OUT" | grep -q '^VIOLATION'; then echo "CAUGHT $P by $PROP ($TIER)"; exit 0; fi
echo "MISSED $P by $PROP ($TIER) rc=$RC"; exit 1
