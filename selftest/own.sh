#!/bin/bash
# selftest/own.sh <seed id> [tier] [check] — run one check (default: the check of the seed's own property) against a
# scratch worktree of /repo with the seeded change applied (VERIF_REPO); /repo itself is not touched. Env SHOW=n prints
# the last n lines of the check's output; VERIF_ONLY=a:b restricts the case range.
s=$1; tier=${2:-quick}; c=${3:-${s%%-*}}
V="$(cd "$(dirname "$0")/.." && pwd)"
WT=$(mktemp -d /tmp/ownwt.XXXXXX); rmdir "$WT"
for try in 1 2 3 4 5 6; do git -C /repo worktree add -q --detach "$WT" HEAD 2>/dev/null && break; sleep $((try*2)); done
[ -d "$WT" ] || { echo "$s NO-WORKTREE"; exit 2; }
trap 'git -C /repo worktree remove --force "$WT" >/dev/null 2>&1; git -C /repo worktree prune; rm -rf "$WT.out"' EXIT
git -C "$WT" apply "$V/seeded/$s/patch.diff" || { echo "$s PATCH-DOES-NOT-APPLY"; exit 3; }
o=$(VERIF_OUT="$WT.out" VERIF_REPO="$WT" timeout 3000 "$V/run.sh" "$c" "$tier" 2>&1); rc=$?
echo "$s $c $tier rc=$rc $(echo "$o" | grep -m1 -o 'class=[^ ]*') violations_printed=$(echo "$o" | grep -c '^VIOLATION')"
[ -n "${SHOW:-}" ] && echo "$o" | cut -c1-400 | tail -"$SHOW"
exit 0
