#!/bin/bash
# selftest/process_wave.sh <candidate root, e.g. /tmp/mut5> <tag, e.g. w5> [property ...] — confirm every candidate
# <root>/<Cxx>/m<k> (scratch worktree), store the confirmed ones as seeded/<Cxx>-<tag>m<k> and run the own check on each.
root=$1; tag=$2; shift 2
V="$(cd "$(dirname "$0")/.." && pwd)"
props=("$@"); [ ${#props[@]} -eq 0 ] && props=($(ls "$root" | grep '^C[0-9][0-9]$'))
for p in "${props[@]}"; do
  for d in "$root/$p"/m*; do
    [ -f "$d/patch.diff" ] && [ -f "$d/meta.json" ] && [ -f "$d/demo_test.go" ] || continue
    k=$(basename "$d"); id="$p-$tag$k"
    r=$("$V/selftest/confirm_seed.sh" "$d" 2>&1 | grep RESULT)
    if echo "$r" | grep -q confirmed; then
      mkdir -p "$V/seeded/$id"; cp "$d/patch.diff" "$d/demo_test.go" "$d/meta.json" "$V/seeded/$id/"
      "$V/selftest/own.sh" "$id"
    else
      echo "$id NOT-CONFIRMED: $r"
    fi
  done
done
