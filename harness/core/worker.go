package core

import (
	"encoding/binary"
	"encoding/json"
	"fmt"
	"os"
	"runtime"
	"runtime/debug"
	"sort"
	"sync/atomic"
	"time"
)

// Witness is what a violation (or a sampled case) leaves behind.
type Witness struct {
	Property string `json:"property"`
	Tier     string `json:"tier"`
	Seed     int64  `json:"seed"`
	Index    int64  `json:"index"`
	Class    string `json:"class,omitempty"`
	Reason   string `json:"reason,omitempty"`
	Detail   any    `json:"detail,omitempty"`
	Case     any    `json:"case,omitempty"`
	Stack    string `json:"stack,omitempty"`
}

// BatchResult is what one worker process reports for its index range.
type BatchResult struct {
	A, B         int64
	Evaluations  int64
	Held         int64
	NonTrivial   int64
	Inconclusive map[string]int64
	Calls        int64
	Tags         map[string]int64
	Obs          map[string]float64
	Sets         map[string][]string
	NViolations  int64
	ByClass      map[string]int64
	Violations   []Witness
	Samples      []Witness
	Panics       int64
}

var abortBatch atomic.Bool

// AbortBatch makes the worker stop after the current case (used by a monitor that had to abandon a call).
func AbortBatch() { abortBatch.Store(true) }

const maxWitnessPerBatch = 64
const maxWitnessPerClass = 3

func newCase(m *Monitor, tier string, seed, i int64) *Case {
	return &Case{Prop: m.ID, Tier: tier, Seed: seed, I: i, R: NewRng(seed, m.ID+"/"+tier, i)}
}

// runOne executes the monitor on case i with panic recovery.
func runOne(m *Monitor, c *Case) (stack string) {
	defer func() {
		if r := recover(); r != nil {
			stack = string(debug.Stack())
			c.Fail("panic", nil, "panic: %v", r)
		}
	}()
	m.Run(c)
	return ""
}

// preCase runs 1 case in 40 under a hostile scheduler width (separate PRNG stream: the case itself is unchanged).
func preCase(m *Monitor, c *Case) {
	if m.Custom != nil {
		return
	}
	if pr := NewRng(c.Seed, m.ID+"/procs", c.I); pr.P(0.025) {
		c.setProcs(hostileProcs[pr.Intn(len(hostileProcs))])
	}
}

// jsonSafe returns v, or its %+v rendering when v cannot be marshalled (NaN and infinities inside a description).
func jsonSafe(v any) any {
	if v == nil {
		return nil
	}
	if _, err := json.Marshal(v); err != nil {
		return fmt.Sprintf("%+v", v)
	}
	return v
}

func describe(c *Case) (d any) {
	if c.Desc == nil {
		return nil
	}
	defer func() {
		if r := recover(); r != nil {
			d = fmt.Sprintf("<description panicked: %v>", r)
		}
	}()
	return c.Desc()
}

func witnessOf(c *Case, stack string) Witness {
	if c.history != "" && c.verdict == Violated {
		c.reason += " [the case was preceded, in the same process, by a hostile call: " + c.history + "]"
	}
	if c.procs != 0 && c.verdict == Violated {
		c.reason += fmt.Sprintf(" [GOMAXPROCS=%d]", c.procs)
	}
	return Witness{Property: c.Prop, Tier: c.Tier, Seed: c.Seed, Index: c.I, Class: c.class, Reason: c.reason,
		Detail: jsonSafe(c.failDetail), Case: jsonSafe(describe(c)), Stack: stack}
}

// RunWorker processes cases [a,b) and writes <out>.json (results) and <out>.keys (hashes of distinct
// non-trivial held cases). Before each case its index is written to <out>.journal (write-ahead), so that the
// supervisor knows which case a crashed or hung worker was executing.
func RunWorker(m *Monitor, tier string, seed, a, b int64, out string) error {
	jf, err := os.OpenFile(out+".journal", os.O_CREATE|os.O_WRONLY|os.O_TRUNC, 0o644)
	if err != nil {
		return err
	}
	defer jf.Close()
	go memoryWatchdog()
	if m.Init != nil {
		m.Init(tier)
	}
	res := &BatchResult{A: a, B: b, Inconclusive: map[string]int64{}, Tags: map[string]int64{}, Obs: map[string]float64{},
		Sets: map[string][]string{}, ByClass: map[string]int64{}}
	keys := make(map[uint64]struct{}, 1024)
	sets := map[string]map[string]struct{}{}
	var jb [8]byte
	sampleAt := a + int64(mix(uint64(seed)^uint64(a))%uint64(b-a))
	for i := a; i < b; i++ {
		if abortBatch.Load() { // a monitor abandoned a call that does not return: the rest of the batch is not evaluated
			res.Inconclusive["skipped-after-abandoned-call"] += b - i
			break
		}
		binary.LittleEndian.PutUint64(jb[:], uint64(i))
		jf.WriteAt(jb[:], 0)
		c := newCase(m, tier, seed, i)
		c.WantDetail = i == a || i == sampleAt
		if BeforeCase != nil && m.Custom == nil {
			if pr := NewRng(seed, m.ID+"/history", i); pr.P(0.05) {
				what := BeforeCase(m.ID, pr)
				c.Tag("preceded-by-hostile-call")
				c.history = what
			}
		}
		preCase(m, c)
		stack := runOne(m, c)
		c.restoreProcs()
		res.Evaluations++
		res.Calls += c.calls
		for _, t := range c.tags {
			res.Tags[t]++
		}
		for k, v := range c.obs {
			res.Obs[k] += v
		}
		for k, v := range c.sets {
			s := sets[k]
			if s == nil {
				s = map[string]struct{}{}
				sets[k] = s
			}
			for _, x := range v {
				s[x] = struct{}{}
			}
		}
		switch c.verdict {
		case Held:
			res.Held++
			if c.nontrivial {
				res.NonTrivial++
				keys[c.key] = struct{}{}
			}
		case Inconclusive:
			res.Inconclusive[c.reason]++
		case Violated:
			res.NViolations++
			res.ByClass[c.class]++
			if stack != "" {
				res.Panics++
			}
			// witnesses are kept per class, so that a frequent (e.g. known) class cannot crowd out a rare one
			if res.ByClass[c.class] <= maxWitnessPerClass && len(res.Violations) < maxWitnessPerBatch {
				res.Violations = append(res.Violations, witnessOf(c, stack))
			}
		}
		if c.WantDetail && c.verdict != Violated {
			w := witnessOf(c, "")
			w.Reason = map[Verdict]string{Held: "held", Inconclusive: "inconclusive: " + c.reason}[c.verdict]
			res.Samples = append(res.Samples, w)
		}
	}
	for k, s := range sets {
		for x := range s {
			res.Sets[k] = append(res.Sets[k], x)
		}
		sort.Strings(res.Sets[k])
	}
	kb := make([]byte, 0, 8*len(keys))
	for k := range keys {
		kb = binary.LittleEndian.AppendUint64(kb, k)
	}
	if err := os.WriteFile(out+".keys", kb, 0o644); err != nil {
		return err
	}
	js, err := json.Marshal(res)
	if err != nil {
		return err
	}
	return os.WriteFile(out+".json", js, 0o644)
}

// ReplayOne re-executes one case and returns its witness (with full description) and verdict.
func ReplayOne(m *Monitor, tier string, seed, i int64) (Witness, Verdict) {
	if m.Init != nil {
		m.Init(tier)
	}
	c := newCase(m, tier, seed, i)
	c.WantDetail = true
	if BeforeCase != nil && m.Custom == nil {
		if pr := NewRng(seed, m.ID+"/history", i); pr.P(0.05) {
			c.history = BeforeCase(m.ID, pr)
		}
	}
	preCase(m, c)
	stack := runOne(m, c)
	c.restoreProcs()
	w := witnessOf(c, stack)
	if c.verdict == Held {
		w.Reason = "held"
	}
	return w, c.verdict
}

// MemLimit is the heap size beyond which a worker gives up on its current case (exit status 98). Every case
// is sized by its generator to need a few MB; a case that needs gigabytes has left its documented cost class.
const MemLimit = 4 << 30

func memoryWatchdog() {
	var ms runtime.MemStats
	for {
		time.Sleep(200 * time.Millisecond)
		runtime.ReadMemStats(&ms)
		if ms.HeapAlloc > MemLimit {
			fmt.Fprintf(os.Stderr, "worker heap %d MiB exceeds the %d MiB limit: giving up on the current case\n", ms.HeapAlloc>>20, MemLimit>>20)
			os.Exit(98)
		}
	}
}
