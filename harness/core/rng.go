// Package core is the monitor framework: seeded case streams, verdict accounting, write-ahead journal,
// supervisor/worker process model, evidence and witness files.
package core

import "math"

// Rng is a splitmix64 generator: cheap to seed, so every case owns a generator that is a pure function of
// (seed, property, case index) and can be regenerated for replay.
type Rng struct{ s uint64 }

func mix(z uint64) uint64 {
	z += 0x9e3779b97f4a7c15
	z = (z ^ (z >> 30)) * 0xbf58476d1ce4e5b9
	z = (z ^ (z >> 27)) * 0x94d049bb133111eb
	return z ^ (z >> 31)
}

// HashStr is FNV-1a folded through mix.
func HashStr(s string) uint64 {
	h := uint64(14695981039346656037)
	for i := 0; i < len(s); i++ {
		h ^= uint64(s[i])
		h *= 1099511628211
	}
	return mix(h)
}

func NewRng(seed int64, prop string, i int64) *Rng {
	return &Rng{s: mix(uint64(seed)*0x9e3779b97f4a7c15^HashStr(prop)) ^ mix(uint64(i)+0x1234567)}
}

func (r *Rng) U64() uint64 {
	r.s += 0x9e3779b97f4a7c15
	z := r.s
	z = (z ^ (z >> 30)) * 0xbf58476d1ce4e5b9
	z = (z ^ (z >> 27)) * 0x94d049bb133111eb
	return z ^ (z >> 31)
}

// Intn returns a uniform value in [0,n), n > 0.
func (r *Rng) Intn(n int) int { return int(r.U64() % uint64(n)) }

// I64n returns a uniform value in [0,n), n > 0.
func (r *Rng) I64n(n int64) int64 { return int64(r.U64() % uint64(n)) }

// Range returns a uniform value in [lo,hi] (inclusive), lo <= hi.
func (r *Rng) Range(lo, hi int64) int64 {
	if hi <= lo {
		return lo
	}
	span := uint64(hi-lo) + 1
	if span == 0 {
		return int64(r.U64())
	}
	return lo + int64(r.U64()%span)
}

func (r *Rng) Float() float64 { return float64(r.U64()>>11) / (1 << 53) }

// Uniform returns a float in [lo,hi).
func (r *Rng) Uniform(lo, hi float64) float64 { return lo + (hi-lo)*r.Float() }

func (r *Rng) Bool() bool { return r.U64()&1 == 1 }

// P returns true with probability p.
func (r *Rng) P(p float64) bool { return r.Float() < p }

// Norm returns a standard normal value (Box-Muller).
func (r *Rng) Norm() float64 {
	u := r.Float()
	for u == 0 {
		u = r.Float()
	}
	return math.Sqrt(-2*math.Log(u)) * math.Cos(2*math.Pi*r.Float())
}

// Perm returns a random permutation of 0..n-1.
func (r *Rng) Perm(n int) []int {
	p := make([]int, n)
	for i := range p {
		p[i] = i
	}
	for i := n - 1; i > 0; i-- {
		j := r.Intn(i + 1)
		p[i], p[j] = p[j], p[i]
	}
	return p
}
