package core

import (
	"fmt"
	"math"
	"runtime"
	"sort"
)

// Verdict of one case. Three-valued: inconclusive is never folded into held or violated.
type Verdict int

const (
	Held Verdict = iota
	Violated
	Inconclusive
)

// Case is the context one monitor invocation works in. The monitor draws its inputs from R (a pure function of
// seed, property and index), calls the library, and reports through the methods below.
type Case struct {
	Prop string
	Tier string
	Seed int64
	I    int64
	R    *Rng

	// WantDetail is set by the worker for sampled and replayed cases; Desc is evaluated only then or on failure.
	WantDetail bool
	// Desc, if set by the monitor, materialises the case (arguments, observed, expected) for samples/witnesses.
	Desc func() any

	verdict    Verdict
	reason     string
	class      string
	failDetail any
	key        uint64
	nontrivial bool
	calls      int64
	tags       []string
	obs        map[string]float64
	sets       map[string][]string
	history    string
	procs      int
}

// hostileProcs are scheduler widths under which results must not change: one, non-powers of two, more than the
// machine has, and more than 256. A library that splits work by GOMAXPROCS or NumCPU sees remainders with these.
var hostileProcs = []int{1, 2, 3, 5, 6, 7, 12, 24, 48, 61, 300, 512}

// Procs puts the rest of the case under a hostile GOMAXPROCS (drawn from the case's PRNG, so a replay repeats it); the
// worker restores the default after the case. Monitors call it when they generate a shape that a library might
// process in parallel (long lists, large expansions).
func (c *Case) Procs() {
	if c.procs != 0 {
		return
	}
	c.setProcs(hostileProcs[c.R.Intn(len(hostileProcs))])
}

// ProcsN puts the rest of the case under GOMAXPROCS n (directed cases).
func (c *Case) ProcsN(n int) {
	if c.procs == 0 {
		c.setProcs(n)
	}
}

func (c *Case) setProcs(n int) {
	c.procs = n
	runtime.GOMAXPROCS(n)
	c.Tag("hostile-GOMAXPROCS")
}

func (c *Case) restoreProcs() {
	if c.procs != 0 {
		runtime.GOMAXPROCS(defaultProcs)
	}
}

var defaultProcs = runtime.GOMAXPROCS(0)

// Call counts one library call (for the evidence).
func (c *Case) Call() { c.calls++ }

// Calls counts n library calls.
func (c *Case) Calls(n int) { c.calls += int64(n) }

// Tag counts the case under a class label in the evidence.
func (c *Case) Tag(t string) { c.tags = append(c.tags, t) }

// Obs adds v to a named numeric observation (summed over the run).
func (c *Case) Obs(name string, v float64) {
	if c.obs == nil {
		c.obs = map[string]float64{}
	}
	c.obs[name] += v
}

// SetAdd records a member of a named set observation (union over the run, e.g. EPSG codes exercised).
func (c *Case) SetAdd(name, member string) {
	if c.sets == nil {
		c.sets = map[string][]string{}
	}
	c.sets[name] = append(c.sets[name], member)
}

// Fail records a violation (the first one of a case wins). class is a short tag naming the failing
// relation and input class; it is what known_findings.json 'known' entries match on.
func (c *Case) Fail(class string, detail any, format string, a ...any) {
	if c.verdict == Violated {
		return
	}
	c.verdict = Violated
	c.class = class
	c.reason = fmt.Sprintf(format, a...)
	c.failDetail = detail
}

// Scratch returns an empty case for one goroutine of a concurrent scenario: judges written for a Case can run on it
// without sharing state; Adopt transfers its verdict to the real case after the goroutines were joined.
func Scratch(r *Rng) *Case { return &Case{R: r} }

// Adopt takes over a scratch case's violation (class prefixed) and its call count.
func (c *Case) Adopt(sc *Case, prefix, context string) {
	c.calls += sc.calls
	if sc.verdict == Violated {
		c.Fail(prefix+sc.class, sc.failDetail, "%s: %s", context, sc.reason)
	}
}

// Failed reports whether a violation was already recorded.
func (c *Case) Failed() bool { return c.verdict == Violated }

// Inconclusive marks the case inconclusive (unless it already failed).
func (c *Case) Inconclusive(reason string) {
	if c.verdict == Violated {
		return
	}
	c.verdict = Inconclusive
	c.reason = reason
}

// NonTrivial marks the case as non-trivial by the property's stated rule.
func (c *Case) NonTrivial() { c.nontrivial = true }

// Key folding: the canonical identity of the case for distinct counting.
func (c *Case) KI(v ...int64) {
	for _, x := range v {
		c.key = mix(c.key ^ uint64(x))
	}
}
func (c *Case) KF(v ...float64) {
	for _, x := range v {
		c.key = mix(c.key ^ math.Float64bits(x))
	}
}
func (c *Case) KS(v ...string) {
	for _, x := range v {
		c.key = mix(c.key ^ HashStr(x))
	}
}

// Monitor is one property's workload + oracle.
type Monitor struct {
	ID        string
	Technique string
	Rule      string   // how cases are generated and what makes one non-trivial / distinct
	Assume    []string // assumptions / trusted base
	// N returns the number of cases of a tier (a pure function of the tier: never a time budget).
	N func(tier string) int64
	// Batch is the number of cases per worker process (0 = framework default).
	Batch func(tier string) int64
	// Timeout per batch in seconds (0 = framework default). A watchdog firing is inconclusive, never a verdict.
	Timeout func(tier string) int
	// Init runs once per worker process before the first case.
	Init func(tier string)
	// Run judges case c.
	Run func(c *Case)
	// Floor is the minimum number of distinct non-trivial held cases below which the run reports
	// "observed too little" (exit 2) instead of "held".
	Floor func(tier string) int64
	// Exhaustive describes sub-scopes enumerated completely (evidence only).
	Exhaustive func(tier string) []string
	// Custom, if set, replaces the batch/worker model (used by the in-process concurrent monitor C19).
	Custom func(env *Env) *Summary
	// Race asks run.sh for a -race build.
	Race bool
}

// BeforeCase, if set, is called before 5 % of the cases (separate PRNG stream) to issue one hostile library call whose
// outcome is ignored; it returns a description of the call.
var BeforeCase func(prop string, r *Rng) string

var registry = map[string]*Monitor{}

func Register(m *Monitor) { registry[m.ID] = m }

func Lookup(id string) *Monitor { return registry[id] }

func IDs() []string {
	var ids []string
	for k := range registry {
		ids = append(ids, k)
	}
	sort.Strings(ids)
	return ids
}

// PostFunc lets a monitor inspect artefacts of the whole run (e.g. race-detector logs) and add to the summary.
type PostFunc func(env *Env, sum *Summary)

var postHooks = map[string]PostFunc{}

// RegisterPost installs a post-run hook for a monitor.
func RegisterPost(id string, f PostFunc) { postHooks[id] = f }

// RunPost runs the post-run hook of monitor id, if any.
func RunPost(id string, env *Env, sum *Summary) {
	if f := postHooks[id]; f != nil {
		f(env, sum)
	}
}
