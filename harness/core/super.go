package core

import (
	"encoding/binary"
	"encoding/json"
	"fmt"
	"os"
	"os/exec"
	"path/filepath"
	"runtime"
	"sort"
	"strings"
	"sync"
	"time"
)

// Env is the run environment of a check.
type Env struct {
	Prop     string
	Tier     string
	Seed     int64
	VerifDir string // /verif (known_findings.json; evidence/ and replay/ unless OutDir is set)
	OutDir   string // where evidence/ and replay/ are written (self-tests against seeded changes point it at a scratch directory)
	WorkDir  string // scratch directory for journals and batch results (removed by run.sh)
	Self     string // path of this executable
	Workers  int
	Repo     string
}

// Summary is the merged outcome of a run.
type Summary struct {
	Evaluations  int64
	Held         int64
	NonTrivial   int64
	Distinct     int64
	Inconclusive map[string]int64
	Calls        int64
	Tags         map[string]int64
	Obs          map[string]float64
	Sets         map[string][]string
	NViolations  int64
	ByClass      map[string]int64
	Violations   []Witness
	Samples      []Witness
	Panics       int64
	Crashes      int64
	Watchdogs    int64
	Batches      int64
	Extra        map[string]any
	TooLittle    string // non-empty: the monitor observed too little to say "held"
}

func newSummary() *Summary {
	return &Summary{Inconclusive: map[string]int64{}, Tags: map[string]int64{}, Obs: map[string]float64{},
		Sets: map[string][]string{}, ByClass: map[string]int64{}, Extra: map[string]any{}}
}

type batch struct{ a, b int64 }

// Supervise runs the batch/worker model for monitor m and returns the merged summary.
func Supervise(m *Monitor, env *Env) *Summary {
	sum := newSummary()
	n := m.N(env.Tier)
	workers := env.Workers
	if workers <= 0 {
		workers = runtime.NumCPU()
	}
	bs := int64(0)
	if m.Batch != nil {
		bs = m.Batch(env.Tier)
	}
	if bs <= 0 {
		bs = (n + int64(workers*4) - 1) / int64(workers*4)
		if bs < 1 {
			bs = 1
		}
	}
	timeout := 0
	if m.Timeout != nil {
		timeout = m.Timeout(env.Tier)
	}
	if timeout <= 0 {
		timeout = map[string]int{"quick": 900, "thorough": 3600}[env.Tier]
	}
	first := int64(0)
	if only := os.Getenv("VERIF_ONLY"); only != "" { // debugging aid: VERIF_ONLY=a:b restricts the run to case indices [a,b)
		var a, b int64
		if _, err := fmt.Sscanf(only, "%d:%d", &a, &b); err == nil && a >= 0 && b > a {
			first = a
			if b < n {
				n = b
			}
		}
	}
	var queue []batch
	for a := first; a < n; a += bs {
		b := a + bs
		if b > n {
			b = n
		}
		queue = append(queue, batch{a, b})
	}
	var mu sync.Mutex
	// The batch watchdog is sized for a loaded machine (timeout). Once a few batches of this run have finished, later
	// (re-queued) batches get a watchdog relative to what this run's batches actually take: 40 x the 90th percentile
	// + 120 s, at least 300 s, never more than the configured one. A run in which some cases never return therefore
	// ends in minutes, not hours, and a uniformly slow machine stretches the watchdog with it.
	var durs []float64
	adaptive := func() int {
		if len(durs) < 4 {
			return timeout
		}
		d := append([]float64{}, durs...)
		sort.Float64s(d)
		t := int(40*d[len(d)*9/10]) + 120
		if t < 300 {
			t = 300
		}
		if t > timeout {
			t = timeout
		}
		return t
	}
	knownClasses := map[string]bool{}
	for _, k := range loadKnown(env.VerifDir, m.ID) {
		knownClasses[k.Class] = true
	}
	unlistedSoFar := func() bool { // (mu held) a violation outside the known-finding classes has already been recorded
		for cls, n := range sum.ByClass {
			if n > 0 && !knownClasses[cls] {
				return true
			}
		}
		return false
	}
	var allKeys []uint64
	setAcc := map[string]map[string]struct{}{}
	requeues := 0
	const maxRequeues = 12
	sem := make(chan struct{}, workers)
	var wg sync.WaitGroup
	seq := 0
	var launch func(bt batch)
	launch = func(bt batch) {
		mu.Lock()
		seq++
		out := filepath.Join(env.WorkDir, fmt.Sprintf("b%06d", seq))
		mu.Unlock()
		wg.Add(1)
		go func() {
			defer wg.Done()
			sem <- struct{}{}
			defer func() { <-sem }()
			logf, _ := os.Create(out + ".log")
			mu.Lock()
			myTimeout := adaptive()
			mu.Unlock()
			started := time.Now()
			cmd := exec.Command("timeout", "-s", "QUIT", "-k", "20", fmt.Sprint(myTimeout), env.Self,
				"--worker", "--prop", m.ID, "--tier", env.Tier, "--seed", fmt.Sprint(env.Seed),
				"--from", fmt.Sprint(bt.a), "--to", fmt.Sprint(bt.b), "--out", out)
			cmd.Stdout = logf
			cmd.Stderr = logf
			err := cmd.Run()
			logf.Close()
			code := 0
			if err != nil {
				code = -1
				if ee, ok := err.(*exec.ExitError); ok {
					code = ee.ExitCode()
				}
			}
			var res BatchResult
			ok := false
			if code == 0 {
				if js, e := os.ReadFile(out + ".json"); e == nil && json.Unmarshal(js, &res) == nil {
					ok = true
				}
			}
			var re []batch
			mu.Lock()
			sum.Batches++
			if ok {
				durs = append(durs, time.Since(started).Seconds())
				mergeBatch(sum, &res, setAcc)
				if kb, e := os.ReadFile(out + ".keys"); e == nil {
					for i := 0; i+8 <= len(kb); i += 8 {
						allKeys = append(allKeys, binary.LittleEndian.Uint64(kb[i:]))
					}
				}
				mu.Unlock()
				for _, ext := range []string{".json", ".keys", ".journal", ".log"} {
					os.Remove(out + ext)
				}
				return
			}
			// abnormal end: the journal names the case that was executing
			j := bt.a
			if jb, e := os.ReadFile(out + ".journal"); e == nil && len(jb) >= 8 {
				j = int64(binary.LittleEndian.Uint64(jb))
			}
			if j < bt.a || j >= bt.b {
				j = bt.a
			}
			logTail := tailOf(out+".log", 6000)
			sum.Evaluations++
			if code == 124 || code == 137 {
				sum.Watchdogs++
				sum.Inconclusive["watchdog"]++
				sum.Extra["watchdog_case_"+fmt.Sprint(j)] = fmt.Sprintf("case %d exceeded the %ds batch watchdog (inconclusive)", j, myTimeout)
			} else {
				sum.Crashes++
				sum.NViolations++
				cls, why := "crash", fmt.Sprintf("worker process died (exit %d) while executing this case", code)
				if code == 98 {
					cls, why = "resource-blowup", fmt.Sprintf("worker heap exceeded %d MiB while executing this case (cases are sized to need a few MB)", MemLimit>>20)
				}
				sum.ByClass[cls]++
				sum.Violations = append(sum.Violations, Witness{Property: m.ID, Tier: env.Tier, Seed: env.Seed, Index: j,
					Class: cls, Reason: why, Stack: logTail})
			}
			requeues++
			if requeues > maxRequeues {
				sum.TooLittle = fmt.Sprintf("more than %d worker batches ended abnormally; giving up", maxRequeues)
			} else if unlistedSoFar() {
				// the verdict of the run is already "violated": the rest of an abnormally ended batch is not re-queued
				sum.Inconclusive["not-explored-after-abnormal-batch-end"] += bt.b - bt.a - 1
				sum.Evaluations += bt.b - bt.a - 1
			} else {
				if j > bt.a {
					re = append(re, batch{bt.a, j})
				}
				if j+1 < bt.b {
					re = append(re, batch{j + 1, bt.b})
				}
			}
			mu.Unlock()
			for _, r := range re {
				launch(r)
			}
		}()
	}
	for _, bt := range queue {
		launch(bt)
	}
	wg.Wait()
	sort.Slice(allKeys, func(i, j int) bool { return allKeys[i] < allKeys[j] })
	for i, k := range allKeys {
		if i == 0 || k != allKeys[i-1] {
			sum.Distinct++
		}
	}
	for k, s := range setAcc {
		for x := range s {
			sum.Sets[k] = append(sum.Sets[k], x)
		}
		sort.Strings(sum.Sets[k])
	}
	return sum
}

func mergeBatch(sum *Summary, r *BatchResult, setAcc map[string]map[string]struct{}) {
	sum.Evaluations += r.Evaluations
	sum.Held += r.Held
	sum.NonTrivial += r.NonTrivial
	sum.Calls += r.Calls
	sum.NViolations += r.NViolations
	sum.Panics += r.Panics
	for k, v := range r.Inconclusive {
		sum.Inconclusive[k] += v
	}
	for k, v := range r.Tags {
		sum.Tags[k] += v
	}
	for k, v := range r.Obs {
		sum.Obs[k] += v
	}
	for k, v := range r.ByClass {
		sum.ByClass[k] += v
	}
	for k, v := range r.Sets {
		s := setAcc[k]
		if s == nil {
			s = map[string]struct{}{}
			setAcc[k] = s
		}
		for _, x := range v {
			s[x] = struct{}{}
		}
	}
	if len(sum.Violations) < 200 {
		sum.Violations = append(sum.Violations, r.Violations...)
	}
	sum.Samples = append(sum.Samples, r.Samples...)
}

func tailOf(path string, n int) string {
	b, err := os.ReadFile(path)
	if err != nil {
		return ""
	}
	if len(b) > n {
		b = b[len(b)-n:]
	}
	return string(b)
}

// ---- known findings ----

type knownEntry struct {
	Status   string `json:"status"`
	Property string `json:"property"`
	Class    string `json:"class,omitempty"`
	What     string `json:"what,omitempty"`
	Line     string `json:"line,omitempty"`
}

func loadKnown(dir, prop string) []knownEntry {
	var f struct {
		Entries []knownEntry `json:"entries"`
	}
	b, err := os.ReadFile(filepath.Join(dir, "known_findings.json"))
	if err != nil || json.Unmarshal(b, &f) != nil {
		return nil
	}
	var out []knownEntry
	for _, e := range f.Entries {
		if e.Status == "known" && e.Property == prop && e.Class != "" {
			out = append(out, e)
		}
	}
	return out
}

// Finish writes evidence and witnesses, prints the verdict lines and returns the process exit code.
func Finish(m *Monitor, env *Env, sum *Summary, wall time.Duration) int {
	known := loadKnown(env.VerifDir, m.ID)
	knownHit := map[string]int64{}
	var unlisted []Witness
	unlistedCount := int64(0)
	for cls, n := range sum.ByClass {
		matched := false
		for _, k := range known {
			if k.Class == cls {
				knownHit[cls] += n
				matched = true
			}
		}
		if !matched {
			unlistedCount += n
		}
	}
	for _, w := range sum.Violations {
		if _, ok := knownHit[w.Class]; !ok {
			unlisted = append(unlisted, w)
		}
	}
	sort.Slice(unlisted, func(i, j int) bool { return unlisted[i].Index < unlisted[j].Index })
	sort.Slice(sum.Samples, func(i, j int) bool { return sum.Samples[i].Index < sum.Samples[j].Index })

	// samples: first 5 + 3 chosen by the PRNG
	var samples []any
	r := NewRng(env.Seed, m.ID+"/samples", 0)
	for i, s := range sum.Samples {
		if i < 5 {
			samples = append(samples, s)
		}
	}
	for k := 0; k < 3 && len(sum.Samples) > 5; k++ {
		samples = append(samples, sum.Samples[5+r.Intn(len(sum.Samples)-5)])
	}
	if len(samples) == 0 {
		for i, w := range sum.Violations {
			if i < 3 {
				samples = append(samples, w)
			}
		}
	}

	inconcl := int64(0)
	for _, v := range sum.Inconclusive {
		inconcl += v
	}
	floor := int64(2)
	if m.Floor != nil {
		floor = m.Floor(env.Tier)
	}
	if sum.TooLittle == "" && sum.Distinct < floor {
		sum.TooLittle = fmt.Sprintf("only %d distinct non-trivial held cases (floor %d)", sum.Distinct, floor)
	}
	lost := sum.Inconclusive["watchdog"] + sum.Inconclusive["cost-skipped"]
	if sum.TooLittle == "" && sum.Evaluations > 0 && lost*50 > sum.Evaluations {
		sum.TooLittle = fmt.Sprintf("%d of %d cases lost to watchdog/cost (> 2%%)", lost, sum.Evaluations)
	}

	cov := map[string]any{
		"evaluations":         sum.Evaluations,
		"distinct_nontrivial": sum.Distinct,
		"rule":                m.Rule,
		"samples":             samples,
		"held":                sum.Held,
		"nontrivial_held":     sum.NonTrivial,
		"inconclusive":        sum.Inconclusive,
		"inconclusive_total":  inconcl,
		"library_calls":       sum.Calls,
		"classes":             sum.Tags,
		"observations":        sum.Obs,
		"panics":              sum.Panics,
		"worker_crashes":      sum.Crashes,
		"watchdog_firings":    sum.Watchdogs,
		"worker_batches":      sum.Batches,
		"violations_by_class": sum.ByClass,
		"known_findings_hit":  knownHit,
		"technique":           m.Technique,
		"repo":                env.Repo,
	}
	for k, v := range sum.Sets {
		cov["set_"+k] = v
		cov["set_"+k+"_count"] = len(v)
	}
	if m.Exhaustive != nil {
		if ex := m.Exhaustive(env.Tier); len(ex) > 0 {
			cov["exhaustive_subscopes"] = ex
		}
	}
	for k, v := range sum.Extra {
		cov[k] = v
	}
	if sum.TooLittle != "" {
		cov["verdict"] = "inconclusive: " + sum.TooLittle
	} else if unlistedCount > 0 {
		cov["verdict"] = "violated"
	} else {
		cov["verdict"] = fmt.Sprintf("held on the %d executions observed (%d inconclusive)", sum.Held, inconcl)
	}
	ev := map[string]any{
		"property_id": m.ID,
		"tier":        env.Tier,
		"seed":        env.Seed,
		"level":       "exploration",
		"coverage":    cov,
		"assumptions": m.Assume,
		"wall_s":      wall.Seconds(),
		"violations":  sum.NViolations,
	}
	os.MkdirAll(filepath.Join(env.OutDir, "evidence"), 0o755)
	js, _ := json.MarshalIndent(ev, "", " ")
	if err := os.WriteFile(filepath.Join(env.OutDir, "evidence", m.ID+".json"), js, 0o644); err != nil {
		fmt.Fprintln(os.Stderr, "cannot write evidence:", err)
		return 2
	}

	fmt.Printf("%s %s seed=%d: cases=%d held=%d distinct_nontrivial=%d inconclusive=%d violations=%d library_calls=%d wall=%.1fs\n",
		m.ID, env.Tier, env.Seed, sum.Evaluations, sum.Held, sum.Distinct, inconcl, sum.NViolations, sum.Calls, wall.Seconds())
	if len(sum.Tags) > 0 {
		var ks []string
		for k := range sum.Tags {
			ks = append(ks, k)
		}
		sort.Strings(ks)
		var sb strings.Builder
		for _, k := range ks {
			fmt.Fprintf(&sb, " %s=%d", k, sum.Tags[k])
		}
		fmt.Println("  classes:" + sb.String())
	}
	for k, v := range sum.Inconclusive {
		fmt.Printf("  inconclusive(%s)=%d\n", k, v)
	}
	for _, k := range known {
		if knownHit[k.Class] > 0 {
			fmt.Printf("KNOWN-FINDING: property=%s %s (class %s, %d cases)\n", m.ID, k.What, k.Class, knownHit[k.Class])
		}
	}
	if unlistedCount > 0 {
		os.MkdirAll(filepath.Join(env.OutDir, "replay"), 0o755)
		printed := map[string]int{}
		showAll := os.Getenv("VERIF_SHOW_ALL") != ""
		for i, w := range unlisted {
			if showAll {
				fmt.Printf("  [all] class=%s case=%d: %s\n", w.Class, w.Index, w.Reason)
			}
			if printed[w.Class] >= 3 || i >= 40 {
				continue
			}
			printed[w.Class]++
			path := filepath.Join(env.OutDir, "replay", fmt.Sprintf("%s-%s-%d-%d.json", m.ID, env.Tier, env.Seed, w.Index))
			wj, _ := json.MarshalIndent(w, "", " ")
			os.WriteFile(path, wj, 0o644)
			fmt.Printf("  violation class=%s case=%d: %s\n", w.Class, w.Index, w.Reason)
			fmt.Printf("VIOLATION property=%s replay=%s\n", m.ID, path)
		}
		if len(printed) == 0 { // cannot happen while witnesses are kept per class; never exit 1 without the line
			fmt.Printf("VIOLATION property=%s replay=%s\n", m.ID, filepath.Join(env.OutDir, "evidence", m.ID+".json"))
		}
		fmt.Printf("  %d violating cases in total; by class: %v\n", unlistedCount, sum.ByClass)
		return 1
	}
	if sum.TooLittle != "" {
		fmt.Printf("INCONCLUSIVE property=%s the monitor observed too little: %s\n", m.ID, sum.TooLittle)
		return 2
	}
	return 0
}
