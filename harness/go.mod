module verifmon

go 1.22

require (
	github.com/go-gl/mathgl v1.1.0
	github.com/trajectoryjp/closest_go v1.0.3
	github.com/trajectoryjp/geodesy_go v1.0.2
	github.com/trajectoryjp/spatial_id_go/v4 v4.0.0
	github.com/wroge/wgs84 v1.1.7
)

require (
	github.com/trajectoryjp/multidimensional-radix-tree/src v0.0.0-20241022055138-bd6190702079 // indirect
	golang.org/x/image v0.21.0 // indirect
	gonum.org/v1/gonum v0.15.1 // indirect
)

replace github.com/trajectoryjp/spatial_id_go/v4 => /repo
