module verifmon

go 1.22

require github.com/trajectoryjp/spatial_id_go/v4 v4.0.0

replace github.com/trajectoryjp/spatial_id_go/v4 => /repo
