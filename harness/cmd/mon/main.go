// Command mon runs one property monitor: as supervisor (default), as worker (--worker), or replaying a witness.
package main

import (
	"encoding/json"
	"flag"
	"fmt"
	"os"
	"strconv"
	"time"

	"verifmon/core"
	_ "verifmon/props"
)

func main() {
	prop := flag.String("prop", "", "property id (C01..C20)")
	tier := flag.String("tier", "quick", "quick|thorough")
	seed := flag.Int64("seed", 1, "VERIF_SEED")
	worker := flag.Bool("worker", false, "worker mode")
	from := flag.Int64("from", 0, "first case index (worker)")
	to := flag.Int64("to", 0, "one past the last case index (worker)")
	out := flag.String("out", "", "output prefix (worker)")
	replay := flag.String("replay", "", "witness file to replay")
	verifDir := flag.String("verif", "/verif", "verif directory")
	workDir := flag.String("work", "", "scratch directory")
	workers := flag.Int("workers", 0, "parallel worker processes (0 = all cores)")
	repo := flag.String("repo", "/repo", "repository the harness was built against (informational)")
	list := flag.Bool("list", false, "list monitors")
	flag.Parse()
	if *list {
		for _, id := range core.IDs() {
			fmt.Println(id)
		}
		return
	}
	if *replay != "" {
		os.Exit(doReplay(*replay, *prop))
	}
	m := core.Lookup(*prop)
	if m == nil {
		fmt.Fprintln(os.Stderr, "unknown property", *prop)
		os.Exit(2)
	}
	if *tier != "quick" && *tier != "thorough" {
		fmt.Fprintln(os.Stderr, "unknown tier", *tier)
		os.Exit(2)
	}
	if *worker {
		if err := core.RunWorker(m, *tier, *seed, *from, *to, *out); err != nil {
			fmt.Fprintln(os.Stderr, "worker:", err)
			os.Exit(3)
		}
		return
	}
	self, _ := os.Executable()
	env := &core.Env{Prop: *prop, Tier: *tier, Seed: *seed, VerifDir: *verifDir, OutDir: *verifDir, WorkDir: *workDir, Self: self, Workers: *workers, Repo: *repo}
	if o := os.Getenv("VERIF_OUT"); o != "" {
		env.OutDir = o
	}
	if env.WorkDir == "" {
		d, err := os.MkdirTemp("", "mon-"+*prop+"-")
		if err != nil {
			fmt.Fprintln(os.Stderr, err)
			os.Exit(2)
		}
		defer os.RemoveAll(d)
		env.WorkDir = d
	}
	start := time.Now()
	var sum *core.Summary
	if m.Custom != nil {
		sum = m.Custom(env)
	} else {
		sum = core.Supervise(m, env)
	}
	core.RunPost(m.ID, env, sum)
	code := core.Finish(m, env, sum, time.Since(start))
	if code != 0 {
		os.RemoveAll(env.WorkDir)
		os.Exit(code)
	}
}

func doReplay(path, prop string) int {
	b, err := os.ReadFile(path)
	if err != nil {
		fmt.Fprintln(os.Stderr, err)
		return 2
	}
	var w core.Witness
	if err := json.Unmarshal(b, &w); err != nil {
		fmt.Fprintln(os.Stderr, err)
		return 2
	}
	if prop != "" && prop != w.Property {
		fmt.Fprintf(os.Stderr, "witness is for %s, not %s\n", w.Property, prop)
		return 2
	}
	m := core.Lookup(w.Property)
	if m == nil {
		fmt.Fprintln(os.Stderr, "unknown property", w.Property)
		return 2
	}
	if m.Custom != nil {
		fmt.Println("replay of " + w.Property + " re-runs the whole concurrent workload with the recorded seed")
		os.Setenv("VERIF_REPLAY_SEED", strconv.FormatInt(w.Seed, 10))
	}
	nw, v := core.ReplayOne(m, w.Tier, w.Seed, w.Index)
	js, _ := json.MarshalIndent(nw, "", " ")
	fmt.Println(string(js))
	switch v {
	case core.Violated:
		fmt.Printf("VIOLATION property=%s replay=%s\n", w.Property, path)
		return 1
	case core.Inconclusive:
		fmt.Println("replayed case is inconclusive:", nw.Reason)
		return 0
	}
	fmt.Println("replayed case held on the current tree")
	return 0
}
