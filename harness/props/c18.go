package props

import (
	"fmt"
	"math"
	"sort"
	"strconv"

	"github.com/trajectoryjp/spatial_id_go/v4/common/object"
	"github.com/trajectoryjp/spatial_id_go/v4/shape"
	"github.com/wroge/wgs84"

	"verifmon/core"
	"verifmon/ref"
)

// C18 — projection to a planar CRS and back returns the same point.
func init() {
	core.Register(&core.Monitor{
		ID:        "C18",
		Technique: "reference-model monitor (closed-form spherical Mercator) + round-trip relation; structural monitor over the bundled EPSG table; unknown-code sequences",
		Rule: "per case one of: (a) EPSG:3857 on a list of 1-10 valid points (domain edges, vertical stacks sharing lon/lat with different altitudes, repeated points): X = R*lon, Y = R*asinh(tan lat) within 1e-6 m + the ground length of 1e-10 deg, " +
			"round trip within 2e-10 deg (longitude modulo 360), altitude bit-identical both ways, length and order kept; (b) another code of the bundled table chosen by the PRNG, points drawn where the table's own area test accepts them: " +
			"if the forward call succeeds, length/order/altitude bits are preserved in both directions, failures surface as errors never panics; (c) unknown codes (0, negatives, 6677, random) give a conversion error and an empty list, " +
			"also when the same unknown code is used twice in a row after a successful conversion, in both directions. Non-trivial = list with >= 1 point; distinct by (code, points).",
		Assume: []string{"R = 6378137 m; forward tolerance 1e-6 m + R*pi/180*1e-10 (divided by cos(lat) for Y), round trip 2e-10 deg (latitudes are stored at 1e-10 deg resolution)", "regional codes are exercised only with points their area test accepts (wgs84.EPSG().CodesCover)"},
		N:      tierN(50_000, 1_500_000),
		Floor:  tierN(500, 5000),
		Init:   c18Init,
		Run:    runC18,
	})
}

var c18Codes []int

func c18Init(string) {
	c18Codes = wgs84.EPSG().Codes()
	sort.Ints(c18Codes)
}

func runC18(c *core.Case) {
	r := c.R
	mode := r.Intn(10)
	switch {
	case mode < 5:
		c18Mercator(c)
	case mode < 8:
		c18OtherCode(c)
	default:
		c18Unknown(c)
	}
}

func c18Points(c *core.Case, n int, gen func() pt) ([]pt, []*object.Point, bool) {
	r := c.R
	var pts []pt
	var objs []*object.Point
	for i := 0; i < n; i++ {
		p := gen()
		if i > 0 {
			q := pts[r.Intn(i)]
			switch r.Intn(6) {
			case 0:
				p = q
			case 1:
				p.lon, p.lat = q.lon, q.lat // vertical stack: same lon/lat, other altitude
				switch r.Intn(4) {
				case 0:
					p.alt = -q.alt // mirrored altitude (for q.alt = +-0 this is the other zero: equal as numbers, different bits)
				case 1:
					p.alt = []float64{0, math.Copysign(0, -1)}[r.Intn(2)]
				}
			}
		}
		o, err := object.NewPoint(p.lon, p.lat, p.alt)
		if err != nil {
			c.Fail("point-constructor", nil, "NewPoint(%v,%v,%v): %v", p.lon, p.lat, p.alt, err)
			return nil, nil, false
		}
		if math.Float64bits(o.Alt()) != math.Float64bits(p.alt) { // "bit for bit" starts at the caller's value (-0.0 is not +0.0)
			c.Fail("projection-altitude", nil, "point %d: altitude %v (bits %x) is carried by the point object as %v (bits %x)", i, p.alt, math.Float64bits(p.alt), o.Alt(), math.Float64bits(o.Alt()))
			return nil, nil, false
		}
		pts = append(pts, p)
		objs = append(objs, o)
		c.KF(p.lon, p.lat, p.alt)
	}
	return pts, objs, true
}

func lonDiff(a, b float64) float64 {
	d := math.Mod(math.Abs(a-b), 360)
	if d > 180 {
		d = 360 - d
	}
	return d
}

func c18Mercator(c *core.Case) {
	r := c.R
	n := 1 + r.Intn(10)
	if r.P(0.0004) || (c.Tier == "thorough" && r.P(0.0004)) {
		n = veryLongLen(r)
		c.Tag("very-long-list")
		c.Procs()
	} else if r.P(0.003) {
		n = longLen(r)
		c.Tag("long-list")
		c.Procs()
	}
	extreme := r.P(0.15) // altitudes up to +-2^25 m; otherwise within +-10 km (aircraft, terrain, sea floor)
	pts, objs, ok := c18Points(c, n, func() pt {
		if extreme {
			return pt{genLon(r, 20), genLat(r, 20), genAlt(r, 25)}
		}
		return pt{genLon(r, 20), genLat(r, 20), c18Alt(r)}
	})
	if !ok {
		return
	}
	if extreme {
		c.Tag("extreme-altitudes")
	}
	var obs []string
	c.Desc = func() any {
		var ps []string
		for _, p := range pts {
			ps = append(ps, fmt.Sprintf("(%.17g, %.17g, %.17g)", p.lon, p.lat, p.alt))
		}
		return map[string]any{"crs": 3857, "points": ps, "observed": obs}
	}
	// attribute a numeric failure: if the same horizontal position passes at altitude 0, the failure is the known
	// dependence of the horizontal result on the altitude fed through the third-party 3-D transformation
	cls := func(base string, o *object.Point) string {
		if o.Alt() != 0 && c18HoldsAtZeroAltitude(o) {
			return "projection-altitude-dependent"
		}
		return base
	}
	c.KI(3857)
	c.NonTrivial()
	c.Tag("epsg-3857")
	c.SetAdd("codes_exercised", "3857")
	proj, err := shape.ConvertPointListToProjectedPointList(objs, 3857)
	c.Call()
	if err != nil {
		c.Fail("projection-error", nil, "ConvertPointListToProjectedPointList(..,3857) returned %v for valid points", err)
		return
	}
	if len(proj) != len(objs) {
		c.Fail("projection-length", nil, "%d points in, %d projected points out", len(objs), len(proj))
		return
	}
	for i, o := range objs {
		p := proj[i]
		obs = append(obs, fmt.Sprintf("(%.10g, %.10g, %.17g)", p.X, p.Y, p.Alt))
		wx, wy := ref.MercX(o.Lon()), ref.MercY(o.Lat())
		tolX, tolY := c18Tol(o.Lat())
		if math.Abs(p.X-wx) > tolX { // also at lon = +-180: X = R*lon keeps the sign of the longitude
			c.Fail(cls("mercator-x", o), nil, "point %d: lon %v (alt %v) projects to X %v, spherical Mercator gives %v", i, o.Lon(), o.Alt(), p.X, wx)
			return
		}
		if math.Abs(p.Y-wy) > tolY {
			c.Fail(cls("mercator-y", o), nil, "point %d: lat %v (alt %v) projects to Y %v, spherical Mercator gives %v", i, o.Lat(), o.Alt(), p.Y, wy)
			return
		}
		if math.Float64bits(p.Alt) != math.Float64bits(o.Alt()) {
			c.Fail("projection-altitude", nil, "point %d of %d: altitude %v became %v", i, len(objs), o.Alt(), p.Alt)
			return
		}
	}
	back, err := shape.ConvertProjectedPointListToPointList(proj, 3857)
	c.Call()
	if err != nil || len(back) != len(objs) {
		c.Fail("projection-roundtrip", nil, "inverse projection: %d points, err %v", len(back), err)
		return
	}
	for i, o := range objs {
		b := back[i]
		if b == nil {
			c.Fail("projection-roundtrip", nil, "point %d came back nil", i)
			return
		}
		if lonDiff(b.Lon(), o.Lon()) > 2e-10 || math.Abs(b.Lat()-o.Lat()) > 2e-10 {
			c.Fail(cls("projection-roundtrip", o), nil, "point %d: (%v,%v, alt %v) came back as (%v,%v)", i, o.Lon(), o.Lat(), o.Alt(), b.Lon(), b.Lat())
			return
		}
		if math.Float64bits(b.Alt()) != math.Float64bits(o.Alt()) {
			c.Fail("projection-altitude", nil, "point %d: altitude %v came back as %v", i, o.Alt(), b.Alt())
			return
		}
	}
}

// c18Tol is the forward tolerance in metres: 1e-6 m plus the ground length of the 1e-10 degree resolution at which
// latitudes are stored (R*pi/180*1e-10 along a parallel on the Mercator plane, divided by cos(lat) along a meridian).
func c18Tol(lat float64) (tolX, tolY float64) {
	step := ref.EarthR * math.Pi / 180 * 1e-10
	return 1e-6 + step, 1e-6 + step/math.Cos(lat*math.Pi/180)
}

func c18Alt(r *core.Rng) float64 {
	switch r.Intn(5) {
	case 0:
		return 0
	case 1:
		return float64(r.Range(-100, 9000))
	}
	return r.Uniform(-11000, 12000)
}

// c18HoldsAtZeroAltitude repeats the EPSG:3857 numeric checks for the horizontal position of o at altitude 0.
func c18HoldsAtZeroAltitude(o *object.Point) bool {
	z, err := object.NewPoint(o.Lon(), o.Lat(), 0)
	if err != nil {
		return false
	}
	proj, err := shape.ConvertPointListToProjectedPointList([]*object.Point{z}, 3857)
	if err != nil || len(proj) != 1 {
		return false
	}
	wx, wy := ref.MercX(z.Lon()), ref.MercY(z.Lat())
	tolX, tolY := c18Tol(z.Lat())
	if math.Abs(math.Abs(proj[0].X)-math.Abs(wx)) > tolX || (math.Abs(z.Lon()) < 180 && math.Abs(proj[0].X-wx) > tolX) || math.Abs(proj[0].Y-wy) > tolY {
		return false
	}
	back, err := shape.ConvertProjectedPointListToPointList(proj, 3857)
	if err != nil || len(back) != 1 || back[0] == nil {
		return false
	}
	return lonDiff(back[0].Lon(), z.Lon()) <= 2e-10 && math.Abs(back[0].Lat()-z.Lat()) <= 2e-10
}

func c18OtherCode(c *core.Case) {
	r := c.R
	// a point, the codes whose area covers it, one of them
	lon, lat := r.Uniform(-180, 180), r.Uniform(-80, 84)
	if r.P(0.5) { // most regional codes are in Europe/Japan/US
		lon, lat = r.Uniform(-10, 30), r.Uniform(35, 65)
	}
	if r.P(0.3) {
		lon, lat = r.Uniform(125, 150), r.Uniform(25, 45)
	}
	cover := wgs84.EPSG().CodesCover(lon, lat)
	sort.Ints(cover)
	if len(cover) == 0 {
		c.Inconclusive("no-code-covers-point")
		return
	}
	code := cover[r.Intn(len(cover))]
	n := 1 + r.Intn(6)
	pts, objs, ok := c18Points(c, n, func() pt {
		return pt{math.Max(-180, math.Min(180, lon+r.Uniform(-0.2, 0.2))), math.Max(-85, math.Min(85, lat+r.Uniform(-0.2, 0.2))), c18Alt(r)}
	})
	if !ok {
		return
	}
	c.KI(int64(code))
	c.NonTrivial()
	c.Tag("other-epsg-codes")
	var obs []string
	c.Desc = func() any {
		var ps []string
		for _, p := range pts {
			ps = append(ps, fmt.Sprintf("(%.17g, %.17g, %.17g)", p.lon, p.lat, p.alt))
		}
		return map[string]any{"crs": code, "points": ps, "observed": obs}
	}
	// the probe point itself lies in the code's area of use (bundled table): a supported code must convert it
	if probe, e := object.NewPoint(lon, lat, 10); e == nil {
		covered := false
		for _, k := range wgs84.EPSG().CodesCover(probe.Lon(), probe.Lat()) {
			covered = covered || k == code
		}
		if covered {
			pp, pe := shape.ConvertPointListToProjectedPointList([]*object.Point{probe}, code)
			c.Call()
			if pe != nil || len(pp) != 1 {
				c.Fail("supported-code-refused", nil, "EPSG:%d is in the bundled table and its area of use contains (%v,%v), but the conversion returned %d points, err %v", code, probe.Lon(), probe.Lat(), len(pp), pe)
				return
			}
			if bp, be := shape.ConvertProjectedPointListToPointList(pp, code); be != nil || len(bp) != 1 {
				c.Fail("supported-code-refused", nil, "EPSG:%d: inverse conversion of its own projection of (%v,%v) returned %d points, err %v", code, probe.Lon(), probe.Lat(), len(bp), be)
				return
			}
			c.Call()
		}
	}
	proj, err := shape.ConvertPointListToProjectedPointList(objs, code)
	c.Call()
	if err != nil {
		// a point outside the code's area (jitter) is refused with an error: allowed, must not be partial success
		c.Tag("regional-code-refused-point")
		return
	}
	c.SetAdd("codes_exercised", strconv.Itoa(code))
	if len(proj) != len(objs) {
		c.Fail("projection-length", nil, "EPSG:%d: %d points in, %d out", code, len(objs), len(proj))
		return
	}
	for i, o := range objs {
		if math.Float64bits(proj[i].Alt) != math.Float64bits(o.Alt()) {
			c.Fail("projection-altitude", nil, "EPSG:%d point %d: altitude %v became %v", code, i, o.Alt(), proj[i].Alt)
			return
		}
		if math.IsNaN(proj[i].X) || math.IsNaN(proj[i].Y) {
			c.Fail("projection-nan", nil, "EPSG:%d point %d projects to NaN without an error", code, i)
			return
		}
	}
	back, err := shape.ConvertProjectedPointListToPointList(proj, code)
	c.Call()
	if err != nil {
		c.Tag("regional-code-refused-inverse")
		return
	}
	if len(back) != len(objs) {
		c.Fail("projection-length", nil, "EPSG:%d inverse: %d in, %d out", code, len(proj), len(back))
		return
	}
	for i, o := range objs {
		if back[i] == nil || math.Float64bits(back[i].Alt()) != math.Float64bits(o.Alt()) {
			c.Fail("projection-altitude", nil, "EPSG:%d inverse point %d: altitude %v not preserved", code, i, o.Alt())
			return
		}
	}
	// order: element i of the list result equals the conversion of element i alone (both directions), bit for bit
	k := r.Intn(len(objs))
	one, e1 := shape.ConvertPointListToProjectedPointList([]*object.Point{objs[k]}, code)
	c.Call()
	if e1 != nil || len(one) != 1 || math.Float64bits(one[0].X) != math.Float64bits(proj[k].X) || math.Float64bits(one[0].Y) != math.Float64bits(proj[k].Y) {
		c.Fail("projection-order", nil, "EPSG:%d: element %d of the list result (%v,%v) differs from converting that point alone (%v, err %v)", code, k, proj[k].X, proj[k].Y, one, e1)
		return
	}
	oneB, e2 := shape.ConvertProjectedPointListToPointList([]*object.ProjectedPoint{proj[k]}, code)
	c.Call()
	if e2 != nil || len(oneB) != 1 || *oneB[0] != *back[k] {
		c.Fail("projection-order", nil, "EPSG:%d inverse: element %d of the list result differs from converting that point alone (err %v)", code, k, e2)
	}
}

func c18Unknown(c *core.Case) {
	r := c.R
	known := map[int]bool{}
	for _, k := range c18Codes {
		known[k] = true
	}
	code := []int{0, -1, 6677, 999999, 3856, -4326, 1}[r.Intn(7)]
	switch r.Intn(5) {
	case 0, 1:
		code = int(r.Range(-100000, 200000))
	case 2: // codes of other registries and retired codes that software commonly treats as aliases of Web Mercator or WGS 84
		code = []int{102100, 102113, 900913, 3785, 54004, 41001, 3587, 3875, 900914, 102100 + 1, 4326 + 100000, 104199, 102010}[r.Intn(13)]
	case 3: // neighbours of a table code
		code = c18Codes[r.Intn(len(c18Codes))] + int(r.Range(-3, 3))
	}
	if r.P(0.3) { // a code that equals a known one modulo 2^32 (truncation to 32 bits)
		code = c18Codes[r.Intn(len(c18Codes))]
		if r.P(0.5) {
			code = 3857
		}
		code += int(r.Range(-8, 8)) << 32
		if code == 3857 {
			code += 1 << 32
		}
	}
	for known[code] {
		code++
	}
	_, objs, ok := c18Points(c, 1+r.Intn(3), func() pt { return pt{r.Uniform(-179, 179), r.Uniform(-80, 80), genAlt(r, 25)} })
	if !ok {
		return
	}
	c.KI(int64(code))
	c.NonTrivial()
	c.Tag("unknown-code")
	var obs []string
	c.Desc = func() any { return map[string]any{"unknown_crs": code, "observed": obs} }
	// a successful conversion first, then the unknown code twice in a row, in both directions
	good, err := shape.ConvertPointListToProjectedPointList(objs, 3857)
	c.Call()
	if err != nil {
		c.Fail("projection-error", nil, "EPSG:3857 refused valid points: %v", err)
		return
	}
	if _, e := shape.ConvertProjectedPointListToPointList(good, 3857); e != nil { // both directions used successfully before
		c.Fail("projection-error", nil, "EPSG:3857 inverse refused: %v", e)
		return
	}
	c.Call()
	for rep := 0; rep < 2; rep++ {
		p, e := shape.ConvertPointListToProjectedPointList(objs, code)
		c.Call()
		obs = append(obs, fmt.Sprintf("forward #%d: %d points, err %v", rep+1, len(p), e))
		if e == nil || len(p) != 0 {
			c.Fail("unknown-code-accepted", nil, "ConvertPointListToProjectedPointList(.., %d) call %d: %d points, err %v (the code is not in the EPSG table)", code, rep+1, len(p), e)
			return
		}
		b, e2 := shape.ConvertProjectedPointListToPointList(good, code)
		c.Call()
		obs = append(obs, fmt.Sprintf("inverse #%d: %d points, err %v", rep+1, len(b), e2))
		if e2 == nil || len(b) != 0 {
			c.Fail("unknown-code-accepted", nil, "ConvertProjectedPointListToPointList(.., %d) call %d: %d points, err %v", code, rep+1, len(b), e2)
			return
		}
	}
}
