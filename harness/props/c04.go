package props

import (
	"fmt"

	"github.com/trajectoryjp/spatial_id_go/v4/integrate"

	"verifmon/core"
	"verifmon/ref"
)

// C04 — merging never changes the covered region, merges all it can, and is idempotent.

const c04Directed = 4 * 256 // every subset of the 8 children of T, for T.F in {-2,-1,0,1}

func init() {
	core.Register(&core.Monitor{
		ID:        "C04",
		Technique: "reference-model monitor (dyadic unit-cell sets): expected output set, independent region equality, second application",
		Rule: "per case: a target voxel T at (H,V) (f around the sign change and random), a fill of its descendants at 0-2 levels per axis (all / all-but-one / random / none), " +
			"complete sibling groups optionally replaced by their parent (mixed zooms), duplicates, nested entries, ineligible IDs (coarser in h only, v only, both) and a second target voxel mirrored across f=-1/0; " +
			"list shuffled. Oracle: ineligible inputs + ancestor of every dense group + members of non-dense groups, as a set; no duplicates; region(out)==region(in) by unit cells; Merge(out)==out; " +
			"MergeSpatialIds on h==v lists. Non-trivial = some group is dense or has >= 2 members; distinct by (list, targets). Includes all 256 subsets of T's 8 children for T.F in {-2,-1,0,1}.",
		Assume: []string{"reference: group by floor ancestor (x>>d, y>>d, f>>d); dense iff the union of members' unit cells has 4^dh*2^dv elements", "zoom spread of a list <= 3 levels (documented memory bound of the function)"},
		// thorough: 1.0 M cases (1.5 M took an hour; case content is a function of the index, so this is a prefix of it)
		N:     func(t string) int64 { return c04Directed + tierN(80_000, 1_000_000)(t) },
		Floor: tierN(500, 5000),
		Run:   runC04,
		Exhaustive: func(string) []string {
			return []string{"all 256 subsets of the 8 children (h+1,v+1) of a target voxel, for target f in {-2,-1,0,1}"}
		},
	})
}

// c04Expect computes the expected merge result as a set of extended strings.
func c04Expect(ids []ref.ID, H, V int64) (want map[string]struct{}, dense, partial int) {
	want = map[string]struct{}{}
	type group struct {
		members []ref.ID
	}
	groups := map[ref.ID]*group{}
	var order []ref.ID
	for _, a := range ids {
		if a.H >= H && a.V >= V {
			t := ancestor(a, H, V)
			g := groups[t]
			if g == nil {
				g = &group{}
				groups[t] = g
				order = append(order, t)
			}
			g.members = append(g.members, a)
		} else {
			want[a.Ext()] = struct{}{}
		}
	}
	for _, t := range order {
		g := groups[t]
		fh, fv := ref.MaxZooms(g.members)
		isDense := false
		if 2*(fh-H)+(fv-V) <= 24 {
			need := pow2(2*(fh-H) + (fv - V))
			if cells, ok := ref.Region(g.members, fh, fv, 1<<22); ok && int64(len(cells)) == need {
				isDense = true
			}
		}
		if isDense {
			want[t.Ext()] = struct{}{}
			dense++
		} else {
			for _, a := range g.members {
				want[a.Ext()] = struct{}{}
			}
			if len(g.members) >= 2 {
				partial++
			}
		}
	}
	return
}

func c04Fill(r *core.Rng, T ref.ID, dh, dv int64, mode int) []ref.ID {
	kids := ref.ChangeOne(T, T.H+dh, T.V+dv)
	var out []ref.ID
	switch mode {
	case 0: // all
		out = kids
	case 1: // all but one
		skip := r.Intn(len(kids))
		for i, k := range kids {
			if i != skip {
				out = append(out, k)
			}
		}
	case 2: // random subset
		for _, k := range kids {
			if r.Bool() {
				out = append(out, k)
			}
		}
	case 3: // single
		out = []ref.ID{kids[r.Intn(len(kids))]}
	}
	// replace complete sibling groups by their parent at an intermediate zoom
	if (dh > 0 || dv > 0) && r.P(0.4) && len(out) > 0 {
		ih, iv := T.H+r.Range(0, dh), T.V+r.Range(0, dv)
		if ih != T.H+dh || iv != T.V+dv {
			p := ancestor(out[r.Intn(len(out))], ih, iv)
			need := ref.ChangeCount(p, T.H+dh, T.V+dv)
			var rest []ref.ID
			var have int64
			for _, k := range out {
				if ref.Contains(p, k) {
					have++
				} else {
					rest = append(rest, k)
				}
			}
			if have == need || r.P(0.3) { // mostly keep the region unchanged; sometimes add the parent on top (overlap)
				if have == need {
					out = append(rest, p)
				} else {
					out = append(out, p)
				}
			}
		}
	}
	return out
}

// c04History: three merges in a row that share a voxel divided into 32768 unit cells (zoom spread 5): A = [c0, fine],
// B = all eight children of c0's parent + fine, A again. Each is judged by the oracle; a cache of unit-cell sets that is
// corrupted by B shows in the second A.
func c04History(c *core.Case) {
	r := c.R
	H, V := r.Range(0, 28), r.Range(0, 28)
	T := genID(r, H, H, V, V)
	if r.Bool() {
		T.F = clampI([]int64{-1, 0}[r.Intn(2)], -pow2(V), pow2(V)-1)
	}
	kids := ref.ChangeOne(T, H+1, V+1)
	c0 := kids[r.Intn(8)]
	fine := descendant(r, c0, H+6, V+6)
	A := []ref.ID{c0, fine}
	B := append(append([]ref.ID{}, kids...), fine)
	c.Tag("history-shared-voxel-spread-5")
	c.NonTrivial()
	c.KS(T.Ext(), c0.Ext(), fine.Ext())
	var obs []string
	c.Desc = func() any {
		return map[string]any{"scenario": "A,B,A merges sharing a voxel divided into 32768 cells", "target": T.Ext(), "c0": c0.Ext(), "fine": fine.Ext(), "observed": obs}
	}
	for k, ids := range [][]ref.ID{A, B, A} {
		in := ref.Exts(ids)
		got, err := integrate.MergeExtendedSpatialIds(in, H, V)
		c.Call()
		if err != nil {
			c.Fail("merge-error", nil, "merge %d of the A,B,A history returned %v", k+1, err)
			return
		}
		want, _, _ := c04Expect(ids, H, V)
		gs, dup := ref.SetOfExt(got)
		obs = append(obs, fmt.Sprintf("call %d: %d inputs -> %v", k+1, len(in), trunc(got, 6)))
		if missing, extra, same := ref.SameSet(gs, want); !same || dup {
			c.Fail("merge-set-history", nil, "merge %d of the history A=[c0,fine], B=[8 children + fine], A at targets (%d,%d) with c0=%s fine=%s: missing %v, unexpected %v, duplicates %v", k+1, H, V, c0.Ext(), fine.Ext(), missing, extra, dup)
			return
		}
	}
}

// c04VeryLong: 2^15 .. 2^17 + 3 eligible IDs at one zoom pair (each is its own unit cell), the eight children of one
// target voxel placed at the very end of the list (complete fill: must merge), seven children of another one in the
// middle (must stay).
func c04VeryLong(c *core.Case) {
	r := c.R
	H, V := r.Range(3, 28), r.Range(3, 28)
	n := veryLongLen(r)
	seen := map[ref.ID]bool{}
	var ids []ref.ID
	for len(ids) < n-8 {
		a := genID(r, H+1, H+1, V+1, V+1)
		if !seen[a] {
			seen[a] = true
			ids = append(ids, a)
		}
	}
	T := genID(r, H, H, V, V)
	U := ref.Shift(T, 1, 0, 0)
	kidsU := ref.ChangeOne(U, H+1, V+1)
	copy(ids[n/2:], kidsU[:7])
	ids = append(ids, ref.ChangeOne(T, H+1, V+1)...)
	in := ref.Exts(ids)
	c.Tag("very-long-list")
	c.Procs()
	c.NonTrivial()
	c.KS(T.Ext())
	c.KI(int64(n), H, V)
	var got []string
	var err error
	c.Desc = func() any {
		return map[string]any{"scenario": "very long list", "len": len(in), "hZoom": H, "vZoom": V, "complete_fill_at_the_end_of": T.Ext(), "seven_children_of": U.Ext(), "result_len": len(got), "error": fmt.Sprint(err)}
	}
	got, err = integrate.MergeExtendedSpatialIds(in, H, V)
	c.Call()
	if err != nil {
		c.Fail("merge-error", nil, "merge of %d valid IDs returned %v", len(in), err)
		return
	}
	want, _, _ := c04Expect(ids, H, V)
	gs, dup := ref.SetOfExt(got)
	if missing, extra, same := ref.SameSet(gs, want); !same || dup {
		c.Fail("merge-set-very-long-list", nil, "merge of %d IDs at (%d,%d) -> (%d,%d): %d results for %d expected, missing %v, unexpected %v, duplicates %v", len(in), H+1, V+1, H, V, len(gs), len(want), missing, extra, dup)
	}
}

// c04Judge runs one merge and compares it with the unit-cell oracle.
func c04Judge(c *core.Case, ids []ref.ID, H, V int64, class, what string) bool {
	in := ref.Exts(ids)
	got, err := integrate.MergeExtendedSpatialIds(in, H, V)
	c.Call()
	if err != nil {
		c.Fail("merge-error", nil, "%s: MergeExtendedSpatialIds(%v,%d,%d) returned %v", what, trunc(in, 20), H, V, err)
		return false
	}
	want, _, _ := c04Expect(ids, H, V)
	gs, dup := ref.SetOfExt(got)
	if missing, extra, same := ref.SameSet(gs, want); !same || dup {
		c.Fail(class, nil, "%s: MergeExtendedSpatialIds(%v,%d,%d): missing %v, unexpected %v, duplicates %v", what, trunc(in, 20), H, V, missing, extra, dup)
		return false
	}
	return true
}

// c04Crossing: sub-voxels of one target voxel of different aspect (slabs, columns, bars) that cross without nesting
// and whose volumes add up to exactly the voxel's volume although their union does not fill it, together with an ID
// 17 bits finer (so the voxel is worth > 65536 unit cells). Accounting by volume instead of by cells merges it.
func c04Crossing(c *core.Case) {
	r := c.R
	H, V := r.Range(0, 27), r.Range(0, 27)
	T := genID(r, H, H, V, V)
	if r.Bool() {
		T.F = clampI([]int64{-1, 0}[r.Intn(2)], -pow2(V), pow2(V)-1)
	}
	type asp struct{ dh, dv, vol int64 } // volume in 1/64 of the target voxel
	aspects := []asp{{0, 1, 32}, {1, 0, 16}, {1, 1, 8}, {0, 2, 16}, {2, 0, 4}, {1, 2, 4}, {2, 1, 2}, {0, 3, 8}}
	var ids []ref.ID
	total := int64(0)
	for try := 0; try < 80 && total < 64; try++ {
		a := aspects[r.Intn(len(aspects))]
		if total+a.vol > 64 {
			continue
		}
		m := descendant(r, T, H+a.dh, V+a.dv)
		ok := true
		for _, o := range ids {
			if ref.Contains(o, m) || ref.Contains(m, o) {
				ok = false
			}
		}
		if ok {
			ids = append(ids, m)
			total += a.vol
		}
	}
	if total == 64 {
		c.Tag("crossing-members-volume-sum-equals-voxel")
	} else {
		c.Tag("crossing-members")
	}
	host := T
	if r.P(0.5) {
		host = ref.Shift(T, 1, 0, 0)
	}
	ids = append(ids, descendant(r, host, H+6, V+5))
	for i := range ids {
		j := r.Intn(i + 1)
		ids[i], ids[j] = ids[j], ids[i]
	}
	c.NonTrivial()
	keyStrings(c, ref.Exts(ids))
	c.KI(H, V)
	c.Desc = func() any {
		return map[string]any{"scenario": "crossing sub-voxels of different aspect + a 17-bit finer ID", "target": T.Ext(), "ids": ref.Exts(ids), "hZoom": H, "vZoom": V, "volume_sum_64ths": total}
	}
	c04Judge(c, ids, H, V, "merge-set-crossing-aspects", "crossing members")
}

// c04RadixSpan: two target voxels whose indices differ by exactly a round number R along one axis and by one along the
// next axis - (x, y, z+R) and (x, y+1, z), or (x, y+R, z) and (x+1, y, z) - so that the list's extent on that axis is
// exactly R: a group key that packs relative indices with radix R (guarded by "extent > R" instead of ">=") pools the
// two. One gets k of its 8 children, the other the complementary 8-k (pooled: looks full), or one is full and the
// other not (pooled: looks overfull).
func c04RadixSpan(c *core.Case) {
	r := c.R
	// round numbers: {1,2,5} x 10^k (k = 3..7) and 2^k (k = 10..24)
	R := []int64{1, 2, 5}[r.Intn(3)]
	for k := r.Range(3, 7); k > 0; k-- {
		R *= 10
	}
	if r.P(0.35) {
		R = pow2(r.Range(10, 24))
	}
	H, V := r.Range(25, 30), r.Range(25, 30)
	T1 := ref.ID{H: H, X: r.Range(0, pow2(H)-2), Y: r.Range(0, pow2(H)-R-2), V: V, F: r.Range(-pow2(V), pow2(V)-R-1)}
	T2 := T1
	if r.Bool() {
		T1.F += R
		T2.Y++
	} else {
		T1.Y += R
		T2.X++
	}
	k1 := ref.ChangeOne(T1, H+1, V+1)
	k2 := ref.ChangeOne(T2, H+1, V+1)
	var ids []ref.ID
	switch r.Intn(3) {
	case 0: // complementary halves
		n := 1 + r.Intn(7)
		ids = append(ids, k1[:n]...)
		ids = append(ids, k2[n:]...)
	case 1: // one full, one partial
		ids = append(ids, k1...)
		ids = append(ids, k2[:1+r.Intn(7)]...)
	default: // both full
		ids = append(ids, k1...)
		ids = append(ids, k2...)
	}
	if r.Bool() {
		for i := range ids {
			j := r.Intn(i + 1)
			ids[i], ids[j] = ids[j], ids[i]
		}
	}
	c.Tag("targets-a-round-number-apart")
	c.NonTrivial()
	keyStrings(c, ref.Exts(ids))
	c.KI(H, V, R)
	c.Desc = func() any {
		return map[string]any{"scenario": "two target voxels exactly R apart on one axis and 1 apart on the next", "R": R, "T1": T1.Ext(), "T2": T2.Ext(), "ids": ref.Exts(ids)}
	}
	c04Judge(c, ids, H, V, "merge-set-round-span", fmt.Sprintf("targets %s and %s (R=%d)", T1.Ext(), T2.Ext(), R))
}

func runC04(c *core.Case) {
	r := c.R
	if c.I >= c04Directed && r.P(0.004) {
		c04Crossing(c)
		return
	}
	if c.I >= c04Directed && r.P(0.01) {
		c04RadixSpan(c)
		return
	}
	if c.I >= c04Directed && r.P(0.0015) {
		c04History(c)
		return
	}
	if c.I >= c04Directed && (r.P(0.0002) || (c.Tier == "thorough" && r.P(0.0002))) {
		c04VeryLong(c)
		return
	}
	var ids []ref.ID
	var H, V int64
	spatial := false
	if c.I < c04Directed {
		H, V = 5, 4
		T := ref.ID{H: H, X: 2, Y: 2, V: V, F: []int64{-2, -1, 0, 1}[c.I/256]}
		kids := ref.ChangeOne(T, H+1, V+1)
		for b := 0; b < 8; b++ {
			if (c.I%256)>>uint(b)&1 == 1 {
				ids = append(ids, kids[b])
			}
		}
		c.Tag("exhaustive-children-subsets")
	} else {
		spatial = r.P(0.2)
		H, V = r.Range(0, 33), r.Range(0, 33)
		dh, dv := r.Range(0, 2), r.Range(0, 2)
		if spatial {
			V = H
			dv = dh
		}
		if dh == 0 && dv == 0 && r.P(0.8) {
			if spatial {
				dh, dv = 1, 1
			} else if r.Bool() {
				dh = 1
			} else {
				dv = 1
			}
		}
		T := genID(r, H, H, V, V)
		if r.P(0.5) {
			T.F = clampI([]int64{-1, 0, -2, 1}[r.Intn(4)], -pow2(V), pow2(V)-1)
		}
		ids = c04Fill(r, T, dh, dv, r.Intn(4))
		if r.P(0.5) { // second target voxel mirrored across the sign change (f -> -f-1)
			T2 := T
			T2.F = clampI(-T.F-1, -pow2(V), pow2(V)-1)
			ids = append(ids, c04Fill(r, T2, dh, dv, r.Intn(4))...)
		}
		if r.P(0.3) { // horizontally adjacent target voxel
			T3 := ref.Shift(T, 1, 0, 0)
			ids = append(ids, c04Fill(r, T3, dh, dv, r.Intn(4))...)
		}
		if len(ids) > 0 && r.P(0.4) { // duplicates
			for k := r.Intn(3) + 1; k > 0; k-- {
				ids = append(ids, ids[r.Intn(len(ids))])
			}
		}
		if len(ids) > 0 && r.P(0.3) && !spatial { // nested entry one level deeper on one axis (spread stays <= 3)
			a := ids[r.Intn(len(ids))]
			if a.H < T.H+3 && a.V < T.V+3 && a.H < 35 && a.V < 35 {
				if r.Bool() {
					ids = append(ids, descendant(r, a, a.H+1, a.V))
				} else {
					ids = append(ids, descendant(r, a, a.H, a.V+1))
				}
			}
		}
		if r.P(0.4) { // ineligible inputs: coarser than the target in h only, v only, or both
			for k := r.Intn(2) + 1; k > 0; k-- {
				switch r.Intn(3) {
				case 0:
					if H > 0 {
						ids = append(ids, ancestor(descendant(r, T, H, V+dv), H-1, V+dv))
					}
				case 1:
					if V > 0 && !spatial {
						ids = append(ids, ancestor(descendant(r, T, H+dh, V), H+dh, V-1))
					}
				case 2:
					if H > 0 && V > 0 {
						ids = append(ids, ancestor(T, H-1, V-1))
					}
				}
			}
		}
		if spatial {
			var keep []ref.ID
			for _, a := range ids {
				if a.H == a.V {
					keep = append(keep, a)
				}
			}
			ids = keep
		}
		// shuffle
		p := r.Perm(len(ids))
		sh := make([]ref.ID, len(ids))
		for i, j := range p {
			sh[i] = ids[j]
		}
		ids = sh
	}
	in := ref.Exts(ids)
	if len(in) > 0 && c.I >= c04Directed && r.P(0.03) { // one ID spelled with non-canonical numerals the parser accepts
		k := r.Intn(len(in))
		in[k] = respell(r, in[k])
		c.Tag("respelled-numerals")
	}
	inCopy := copyStrings(in)
	var got, again []string
	var err error
	c.Desc = func() any {
		return map[string]any{"ids": trunc(in, 80), "hZoom": H, "vZoom": V, "result": trunc(got, 80), "error": fmt.Sprint(err), "spatial_form": spatial}
	}
	keyStrings(c, in)
	c.KI(H, V)
	want, dense, partial := c04Expect(ids, H, V)
	if dense > 0 {
		c.Tag("dense-group")
	}
	if partial > 0 {
		c.Tag("partial-group")
	}
	if dense+partial > 0 {
		c.NonTrivial()
	}
	neg, pos := false, false
	for _, a := range ids {
		if a.F < 0 {
			neg = true
		} else {
			pos = true
		}
	}
	if neg && pos {
		c.Tag("straddles-ground")
	} else if neg {
		c.Tag("below-ground")
	}
	cls := func(base string) string {
		if neg {
			return base + "-negative-f"
		}
		return base
	}

	if c.I >= c04Directed && r.P(0.08) {
		// poison: a merge rejected for a malformed ID after valid eligible IDs (7 of the 8 children of a voxel that the
		// judged list may complete); state it leaves behind must not show in the judged call
		P := genID(r, H, H, V, V)
		if len(ids) > 0 && r.Bool() {
			P = ancestor(ids[0], clampI(H, 0, ids[0].H), clampI(V, 0, ids[0].V))
		}
		if P.H < 35 && P.V < 35 {
			kids := ref.ChangeOne(P, P.H+1, P.V+1)
			_, perr := integrate.MergeExtendedSpatialIds(malformedAfter(r, ref.Exts(kids[:7])), P.H, P.V)
			c.Call()
			if perr == nil {
				c.Fail("merge-missing-error", nil, "a list ending in a malformed ID was accepted")
				return
			}
			c.Tag("after-failed-call")
		}
	}
	got, err = integrate.MergeExtendedSpatialIds(in, H, V)
	c.Call()
	if err != nil {
		c.Fail("merge-error", nil, "MergeExtendedSpatialIds returned error %v on valid input", err)
		return
	}
	if !sameStrings(in, inCopy) {
		c.Fail("input-modified", nil, "MergeExtendedSpatialIds modified its input slice")
		return
	}
	gotSet, dup := ref.SetOfExt(got)
	if dup {
		c.Fail("merge-duplicates", nil, "merge result contains an ID twice (len %d, distinct %d)", len(got), len(gotSet))
		return
	}
	// independent region equality
	out, perr := parseAll(got)
	if perr != nil {
		c.Fail("merge-malformed-output", nil, "merge result contains a malformed ID: %v", perr)
		return
	}
	fh, fv := ref.MaxZooms(ids, out)
	if rin, ok := ref.Region(ids, fh, fv, 1<<18); ok {
		if rout, ok2 := ref.Region(out, fh, fv, 1<<19); ok2 {
			if len(rin) != len(rout) {
				c.Fail(cls("merge-region"), nil, "merge changed the covered region: %d unit cells in, %d out (at zooms %d,%d)", len(rin), len(rout), fh, fv)
				return
			}
			for cell := range rin {
				if _, ok := rout[cell]; !ok {
					c.Fail(cls("merge-region"), nil, "merge lost unit cell %v (at zooms %d,%d)", cell, fh, fv)
					return
				}
			}
			c.Tag("region-checked")
		} else {
			c.Fail(cls("merge-region"), nil, "merge result covers far more cells than the input (output region over budget)")
			return
		}
	}
	if missing, extra, same := ref.SameSet(gotSet, want); !same {
		c.Fail(cls("merge-set"), map[string]any{"missing": missing, "extra": extra}, "merge(%v,%d,%d): missing %v, unexpected %v", trunc(in, 12), H, V, missing, extra)
		return
	}
	again, err = integrate.MergeExtendedSpatialIds(got, H, V)
	c.Call()
	if err != nil {
		c.Fail("merge-error", nil, "second merge returned error %v", err)
		return
	}
	againSet, dup2 := ref.SetOfExt(again)
	if _, _, same := ref.SameSet(againSet, gotSet); !same || dup2 {
		c.Fail(cls("merge-idempotence"), nil, "merging the result again changed it: %v -> %v", trunc(got, 12), trunc(again, 12))
		return
	}
	if spatial || allSquare(ids) && H == V {
		spIn := ref.Spatials(ids)
		spGot, e := integrate.MergeSpatialIds(spIn, H)
		c.Call()
		if e != nil {
			c.Fail("merge-error", nil, "MergeSpatialIds returned error %v", e)
			return
		}
		wantSp := map[string]struct{}{}
		for s := range want {
			a, _ := ref.ParseExt(s)
			wantSp[a.Spatial()] = struct{}{}
		}
		gs, dup := ref.SetOfExt(spGot)
		if missing, extra, same := ref.SameSet(gs, wantSp); !same || dup {
			c.Fail(cls("merge-set-spatial"), nil, "MergeSpatialIds(%v,%d): missing %v, unexpected %v, duplicates %v", trunc(spIn, 12), H, missing, extra, dup)
			return
		}
		c.Tag("spatial-form")
	}
}

func allSquare(ids []ref.ID) bool {
	for _, a := range ids {
		if a.H != a.V {
			return false
		}
	}
	return true
}
