package props

import (
	"debug/elf"
	"fmt"
	"math"
	"os"
	"path/filepath"
	"runtime"
	"sort"
	"strings"
	"sync"
	"sync/atomic"
	"unsafe"

	"github.com/trajectoryjp/spatial_id_go/v4/common"
	"github.com/trajectoryjp/spatial_id_go/v4/common/enum"
	sperrors "github.com/trajectoryjp/spatial_id_go/v4/common/errors"
	"github.com/trajectoryjp/spatial_id_go/v4/common/object"
	"github.com/trajectoryjp/spatial_id_go/v4/common/spatial"
	"github.com/trajectoryjp/spatial_id_go/v4/detector"
	"github.com/trajectoryjp/spatial_id_go/v4/integrate"
	"github.com/trajectoryjp/spatial_id_go/v4/operated"
	"github.com/trajectoryjp/spatial_id_go/v4/shape"
	"github.com/trajectoryjp/spatial_id_go/v4/transform"

	"verifmon/core"
	"verifmon/ref"
)

// C19 — all operations may be called concurrently.
//
// One case = one round in a fresh worker process (so every round starts with cold library state): the shared
// arguments are snapshotted, G goroutines released by a barrier execute seeded random sequences of operation
// instances on the shared arguments (cold start: the parallel phase comes FIRST, so lazily initialised state is
// first touched concurrently), then every instance is run alone and the concurrent results are compared with it.
func init() {
	core.Register(&core.Monitor{
		ID:        "C19",
		Technique: "Go race detector (-race, checkptr) over randomised parallel schedules + stateless linearizability check (each concurrent result equals the result of the same call run alone) + shared-argument and library-globals watch",
		Rule: "per case (= round, own process, GOMAXPROCS from {2,4,8,16}, 8-64 goroutines): every goroutine runs a PRNG-chosen sequence over a table of operation instances covering the exported functions of all packages, " +
			"all on the same shared argument slices/objects; the first operations of all goroutines hit the same few instances so that first use happens concurrently. Monitors: race-detector report blocks in the log (any block is a violation), " +
			"every concurrent result == result of the instance run alone afterwards, shared arguments byte-equal to their deep copies, library data/bss symbols (from the binary's own ELF table) snapshotted before and after (transform.alt25 == 2^25 as canary). " +
			"Non-trivial = round in which >= 1000 call intervals overlapped and >= 25% of the instance-kind pairs were seen overlapping; distinct by (round parameters).",
		Assume:  []string{"schedules are those the Go scheduler produces under randomised pressure on the available cores; a race needing a schedule never produced is missed", "race detector sees only accesses that execute"},
		N:       tierN(8, 34),
		Batch:   func(string) int64 { return 1 },
		Timeout: func(t string) int { return map[string]int{"quick": 1200, "thorough": 2400}[t] },
		Floor:   tierN(3, 10),
		Race:    true,
		Run:     runC19,
	})
	core.RegisterPost("C19", c19Post)
}

type c19Inst struct {
	name string
	run  func() string
}

type c19Shared struct {
	ext, extSorted, sp, nest []string
	family                   []string // 5/10/12/5/2, a far finer unrelated voxel, then the seven siblings of the first
	points                   []*object.Point
	pointsJP                 []*object.Point
	a, b                     *object.Point
	proj                     []*object.ProjectedPoint
	tiles                    []*object.TileXYZ
	tilesFail                []*object.TileXYZ
	hiA, hiB                 *object.Point
	qv                       []*object.QuadkeyAndVerticalID
	qvBit                    []*object.QuadkeyAndVerticalID
	eid                      *object.ExtendedSpatialID
	ints                     []int64
	strs                     []string
	highShared               *integrate.HighSpatialID // six children of one voxel, merged at build time; only ever an argument afterwards
	fineA, fineB             *object.Point            // end points of a 1 cm diagonal segment
	grid24a, grid24b         []string                 // 24 voxels and one descendant of each
	strsWin                  []string                 // length 3 window of an 8-element array: helpers must not write behind it
	emptyCap                 []string                 // length 0, capacity 8, over a backing array filled with sentinels
	badList                  []string                 // valid prefix that expands to > 1000 voxels, then a malformed ID
	obst, obstExt, probes    []string                 // 40 obstacle voxels; the same plus 3 more; 3000 probes whose last one overlaps only the extension
}

func (s *c19Shared) snapshot() string {
	var b strings.Builder
	for _, l := range [][]string{s.ext, s.extSorted, s.sp, s.nest, s.strs, s.family, s.grid24a, s.grid24b} {
		fmt.Fprintf(&b, "%q|", l)
	}
	for _, l := range [][]*object.Point{s.points, s.pointsJP, {s.a, s.b}, {s.fineA, s.fineB}} {
		for _, p := range l {
			fmt.Fprintf(&b, "%x,%x,%x;", math.Float64bits(p.Lon()), math.Float64bits(p.Lat()), math.Float64bits(p.Alt()))
		}
	}
	for _, p := range s.proj {
		fmt.Fprintf(&b, "%v;", *p)
	}
	for _, t := range append(append([]*object.TileXYZ{}, s.tiles...), s.tilesFail...) {
		fmt.Fprintf(&b, "%v;", *t)
	}
	fmt.Fprintf(&b, "%v%v;", *s.hiA, *s.hiB)
	for _, q := range append(append([]*object.QuadkeyAndVerticalID{}, s.qv...), s.qvBit...) {
		fmt.Fprintf(&b, "%v;", *q)
	}
	fmt.Fprintf(&b, "%q|%v|%v|%q|%q|%q|%q|%x", s.strsWin[:cap(s.strsWin)], *s.eid, s.ints, s.emptyCap[:cap(s.emptyCap)], s.badList, s.obst, s.obstExt, core.HashStr(strings.Join(s.probes, " ")))
	return b.String()
}

func sortedJoin(l []string, err error) string {
	if err != nil {
		return "error: " + err.Error()
	}
	c := append([]string{}, l...)
	sort.Strings(c)
	return fmt.Sprintf("%d:%s", len(l), strings.Join(c, " "))
}

func pts2s(l []*object.Point, err error) string {
	if err != nil {
		return "error: " + err.Error()
	}
	var b strings.Builder
	for _, p := range l {
		fmt.Fprintf(&b, "(%x,%x,%x)", math.Float64bits(p.Lon()), math.Float64bits(p.Lat()), math.Float64bits(p.Alt()))
	}
	return b.String()
}

// c19High wraps one voxel as a merge candidate for its parent one level up on both axes (threshold 8 unit cells).
func c19High(id string) *integrate.HighSpatialID {
	o, _ := object.NewExtendedSpatialID(id)
	return integrate.NewHighSpatialID(integrate.NewUnitDividedSpatialID(o, 0, 0), 1, 1)
}

func c19Build() (*c19Shared, []c19Inst) {
	s := &c19Shared{}
	s.ext = []string{"20/85263/65423/20/-3", "20/85263/65423/20/-3", "20/85264/65423/20/2", "21/170526/130846/22/-9", "19/42631/32711/19/-1", "20/85263/65424/21/5"}
	s.extSorted = []string{"22/10/10/20/-4", "22/10/10/20/-4", "22/10/11/20/-4", "22/11/10/20/-4", "22/11/11/20/-4", "22/11/11/20/-4"} // ascending, with duplicates
	s.sp = []string{"20/-3/85263/65423", "20/2/85264/65423", "21/-9/170526/130846", "19/-1/42631/32711"}
	s.family = []string{"5/10/12/5/2", "9/300/77/9/400", "5/10/12/5/3", "5/10/13/5/2", "5/10/13/5/3", "5/11/12/5/2", "5/11/12/5/3", "5/11/13/5/2", "5/11/13/5/3"}
	s.highShared = c19High("5/10/12/5/2")
	for _, ch := range []string{"5/10/12/5/3", "5/10/13/5/2", "5/10/13/5/3", "5/11/12/5/2", "5/11/12/5/3"} {
		s.highShared.Merge(c19High(ch))
	}
	s.nest = []string{"11/1810/806/12/7", "11/1811/807/12/7", "10/905/403/12/7", "10/905/403/11/3", "10/905/403/11/3"}
	mk := func(lon, lat, alt float64) *object.Point { p, _ := object.NewPoint(lon, lat, alt); return p }
	s.fineA, s.fineB = mk(139.7530981, 35.6853711, 10.0001), mk(139.75309815, 35.68537115, 10.0101)
	for i := 0; i < 24; i++ {
		s.grid24a = append(s.grid24a, fmt.Sprintf("15/%d/%d/15/%d", 29000+i, 12900+i, i-5))
		s.grid24b = append(s.grid24b, fmt.Sprintf("17/%d/%d/16/%d", 4*(29000+i)+i%4, 4*(12900+i)+1, 2*(i-5)+i%2)) // a descendant of row i of the first list
	}
	s.points = []*object.Point{mk(139.753098, 35.685371, 100), mk(139.753098, 35.685371, -20.5), mk(-179.9999, -84.9, 0), mk(0, 0, -0.001), mk(180, 85.05, 33554432)}
	s.pointsJP = []*object.Point{mk(139.753098, 35.685371, 100), mk(135.5, 34.7, 12)}
	s.a, s.b = mk(139.753098, 35.685371, 10), mk(139.7535, 35.6857, 25)
	s.proj = []*object.ProjectedPoint{{X: 15557245.2, Y: 4257326.9, Alt: 100}, {X: -1000.5, Y: 2000.25, Alt: -3}}
	for _, t := range [][5]int64{{20, 85263, 65423, 23, 4194304}, {20, 85263, 65423, 23, 4194305}, {21, 85263, 65423, 25, 16777216}} {
		x, _ := object.NewTileXYZ(t[0], t[1], t[2], t[3], t[4])
		s.tiles = append(s.tiles, x)
	}
	for _, t := range [][5]int64{{20, 85263, 65423, 23, 100}, {20, 85263, 65424, 23, 1<<23 - 1}} { // second tile leaves the altitude range (E=26)
		x, _ := object.NewTileXYZ(t[0], t[1], t[2], t[3], t[4])
		s.tilesFail = append(s.tilesFail, x)
	}
	s.hiA, s.hiB = mk(25.1, 75.0001, 10), mk(25.1004, 75.0002, 25)
	s.qv = []*object.QuadkeyAndVerticalID{object.NewQuadkeyAndVerticalID(6, 2914, 26, 51, 0, 0), object.NewQuadkeyAndVerticalID(6, 2915, 26, -2, 0, 0), object.NewQuadkeyAndVerticalID(6, 2914, 26, 51, 0, 0)}
	s.qvBit = []*object.QuadkeyAndVerticalID{object.NewQuadkeyAndVerticalID(6, 2914, 7, 74, 500, 0), object.NewQuadkeyAndVerticalID(6, 2915, 7, 74, 1000, 0)}
	s.eid, _ = object.NewExtendedSpatialID("7/24/53/5/19")
	s.ints = []int64{5, -3, 5, 9, 0, -3}
	s.strs = []string{"b", "a", "b", "c", "a"}
	s.strsWin = []string{"w", "a", "w", "behind-0", "behind-1", "behind-2", "behind-3", "behind-4"}[:3]
	backing := []string{"sentinel-0", "sentinel-1", "sentinel-2", "sentinel-3", "sentinel-4", "sentinel-5", "sentinel-6", "sentinel-7"}
	s.emptyCap = backing[:0]
	s.badList = []string{"10/5/7/10/3", "10/6/7/10/3", "10/5/8/10/-4", "10/5/7/10"}
	for i := 0; i < 40; i++ {
		s.obst = append(s.obst, fmt.Sprintf("18/%d/%d/%d", i-20, 1000+7*i, 2000+3*i))
	}
	s.obstExt = append(append([]string{}, s.obst...), "18/5/9000/9000", "18/6/9000/9001", "18/-7/9100/9000")
	for i := 0; i < 3000; i++ {
		s.probes = append(s.probes, fmt.Sprintf("20/%d/%d/%d", i%50-25, 100000+i, 200000+2*i))
	}
	s.probes = append(s.probes, "20/20/36000/36001") // inside 18/5/9000/9000, which only the extended obstacle list contains

	groupsV := func(g []*object.FromExtendedSpatialIDToQuadkeyAndVerticalID, err error) string {
		if err != nil {
			return "error: " + err.Error()
		}
		var l []string
		for _, x := range g {
			for _, p := range x.InnerIDList() {
				l = append(l, fmt.Sprintf("%d:%d@%d,%d,%v,%v", p[0], p[1], x.QuadkeyZoom(), x.VerticalZoom(), x.MaxHeight(), x.MinHeight()))
			}
		}
		return sortedJoin(l, nil)
	}
	groupsA := func(g []*object.FromExtendedSpatialIDToQuadkeyAndAltitudekey, err error) string {
		if err != nil {
			return "error: " + err.Error()
		}
		var l []string
		for _, x := range g {
			for _, p := range x.InnerIDList() {
				l = append(l, fmt.Sprintf("%d:%d@%d,%d,%d,%d", p[0], p[1], x.QuadkeyZoom(), x.AltitudekeyZoom(), x.ZBaseExponent(), x.ZBaseOffset()))
			}
		}
		return sortedJoin(l, nil)
	}
	projs := func(l []*object.ProjectedPoint, err error) string {
		if err != nil {
			return "error: " + err.Error()
		}
		var b strings.Builder
		for _, p := range l {
			fmt.Fprintf(&b, "(%x,%x,%x)", math.Float64bits(p.X), math.Float64bits(p.Y), math.Float64bits(p.Alt))
		}
		return b.String()
	}
	I := func(name string, f func() string) c19Inst { return c19Inst{name, f} }
	insts := []c19Inst{
		// the first four are the "collision set": every goroutine starts with them
		I("shape.ConvertPointListToProjectedPointList(3857)", func() string { return projs(shape.ConvertPointListToProjectedPointList(s.points[:3], 3857)) }),
		I("integrate.MergeExtendedSpatialIds(sorted+dups)", func() string { return sortedJoin(integrate.MergeExtendedSpatialIds(s.extSorted, 21, 20)) }),
		I("transform.ConvertExtendedSpatialIDsToQuadkeysAndVerticalIDs", func() string {
			return groupsV(transform.ConvertExtendedSpatialIDsToQuadkeysAndVerticalIDs(s.nest, 11, 12, 0, 0))
		}),
		I("detector.CheckSpatialIdsArrayOverlap", func() string { g, e := detector.CheckSpatialIdsArrayOverlap(s.sp, s.sp[1:]); return fmt.Sprint(g, e) }),
		// shape
		I("shape.ConvertPointListToProjectedPointList(6677)", func() string { return projs(shape.ConvertPointListToProjectedPointList(s.pointsJP, 6677)) }),
		I("shape.ConvertPointListToProjectedPointList(32654)", func() string { return projs(shape.ConvertPointListToProjectedPointList(s.pointsJP[:1], 32654)) }),
		I("shape.ConvertPointListToProjectedPointList(unknown)", func() string { return projs(shape.ConvertPointListToProjectedPointList(s.pointsJP, 999999)) }),
		I("shape.ConvertProjectedPointListToPointList(3857)", func() string { return pts2s(shape.ConvertProjectedPointListToPointList(s.proj, 3857)) }),
		I("shape.ConvertProjectedPointListToPointList(6677)", func() string { return pts2s(shape.ConvertProjectedPointListToPointList(s.proj[1:], 6677)) }),
		I("shape.GetExtendedSpatialIdsOnPoints", func() string { l, e := shape.GetExtendedSpatialIdsOnPoints(s.points, 25, 27); return fmt.Sprint(l, e) }),
		I("shape.GetSpatialIdsOnPoints", func() string { l, e := shape.GetSpatialIdsOnPoints(s.points, 18); return fmt.Sprint(l, e) }),
		I("shape.GetPointOnExtendedSpatialId(Vertex)", func() string { return pts2s(shape.GetPointOnExtendedSpatialId(s.ext[3], enum.Vertex)) }),
		I("shape.GetPointOnExtendedSpatialId(Center)", func() string { return pts2s(shape.GetPointOnExtendedSpatialId(s.ext[0], enum.Center)) }),
		I("shape.GetPointOnSpatialId", func() string { return pts2s(shape.GetPointOnSpatialId(s.sp[2], enum.Vertex)) }),
		I("shape.GetExtendedSpatialIdsOnLine", func() string { return sortedJoin(shape.GetExtendedSpatialIdsOnLine(s.a, s.b, 22, 24)) }),
		// the same function in its high-zoom regime (other termination thresholds), concurrently with the ordinary one
		I("shape.GetExtendedSpatialIdsOnLine(hZoom 33, vZoom 35, 1 cm diagonal)", func() string {
			return sortedJoin(shape.GetExtendedSpatialIdsOnLine(s.fineA, s.fineB, 33, 35))
		}),
		I("shape.GetSpatialIdsOnLine", func() string { return sortedJoin(shape.GetSpatialIdsOnLine(s.a, s.b, 21)) }),
		I("shape.ConvertSpatialIdsToExtendedSpatialIds", func() string { l, e := shape.ConvertSpatialIdsToExtendedSpatialIds(s.sp); return fmt.Sprint(l, e) }),
		I("shape.ConvertExtendedSpatialIdsToSpatialIds", func() string { l, e := shape.ConvertExtendedSpatialIdsToSpatialIds(s.ext); return fmt.Sprint(l, e) }),
		// integrate
		I("integrate.ChangeExtendedSpatialIdsZoom", func() string { return sortedJoin(integrate.ChangeExtendedSpatialIdsZoom(s.ext, 21, 19)) }),
		I("integrate.ChangeExtendedSpatialIdsZoom(nested)", func() string { return sortedJoin(integrate.ChangeExtendedSpatialIdsZoom(s.nest, 11, 12)) }),
		I("integrate.ChangeSpatialIdsZoom", func() string { return sortedJoin(integrate.ChangeSpatialIdsZoom(s.sp, 21)) }),
		I("integrate.MergeExtendedSpatialIds", func() string { return sortedJoin(integrate.MergeExtendedSpatialIds(s.ext, 19, 19)) }),
		// two merges that share the voxel 5/10/12/5/2 (divided into 4096 cells because of the far finer companion): in the
		// first its seven siblings complete the parent, in the second it stands alone and must come back unchanged
		I("integrate.MergeExtendedSpatialIds(complete family + fine companion)", func() string { return sortedJoin(integrate.MergeExtendedSpatialIds(s.family, 4, 4)) }),
		I("integrate.MergeExtendedSpatialIds(one member + fine companion)", func() string { return sortedJoin(integrate.MergeExtendedSpatialIds(s.family[:2], 4, 4)) }),
		I("integrate.MergeSpatialIds", func() string { return sortedJoin(integrate.MergeSpatialIds(s.sp, 19)) }),
		I("integrate.HorizontalZoom/VerticalZoom", func() string {
			return fmt.Sprint(integrate.HorizontalZoom(5, 3, 7, 7), integrate.VerticalZoom(5, -7, 3), integrate.VerticalZoom(5, -7, 7))
		}),
		// operated
		I("operated.GetShiftingSpatialID", func() string { return operated.GetShiftingSpatialID(s.ext[0], -85264, 3, -7) }),
		I("operated.Get6/8/26", func() string {
			return fmt.Sprint(operated.Get6spatialIdsAdjacentToFaces(s.ext[2]), operated.Get8spatialIdsAroundHorizontal(s.ext[2]), len(operated.Get26spatialIdsAroundVoxel(s.ext[2])))
		}),
		I("operated.GetNspatialIdsAroundVoxcels", func() string { return sortedJoin(operated.GetNspatialIdsAroundVoxcels(s.ext[:3], 2, 1)) }),
		// detector
		I("detector.CheckSpatialIdsOverlap", func() string { g, e := detector.CheckSpatialIdsOverlap(s.sp[0], s.sp[3]); return fmt.Sprint(g, e) }),
		I("detector.CheckExtendedSpatialIdsOverlap", func() string {
			g, e := detector.CheckExtendedSpatialIdsOverlap(s.ext[0], s.ext[4])
			return fmt.Sprint(g, e)
		}),
		// 24 x 24 = 576 pairs with overlapping pairs in many rows (a check that splits the pairs over workers has to
		// combine their answers without sharing a plain variable)
		I("detector.CheckExtendedSpatialIdsArrayOverlap(24 x 24, many overlapping rows)", func() string {
			g, e := detector.CheckExtendedSpatialIdsArrayOverlap(s.grid24a, s.grid24b)
			return fmt.Sprint(g, e)
		}),
		I("detector.CheckExtendedSpatialIdsArrayOverlap", func() string {
			g, e := detector.CheckExtendedSpatialIdsArrayOverlap(s.ext, s.nest)
			return fmt.Sprint(g, e)
		}),
		// transform
		I("transform.ConvertExtendedSpatialIDsToQuadkeysAndVerticalIDs(bit)", func() string {
			return groupsV(transform.ConvertExtendedSpatialIDsToQuadkeysAndVerticalIDs(s.ext[:3], 19, 7, 256, -256))
		}),
		I("transform.ConvertSpatialIDsToQuadkeysAndVerticalIDs", func() string { return groupsV(transform.ConvertSpatialIDsToQuadkeysAndVerticalIDs(s.sp, 20, 20, 0, 0)) }),
		I("transform.ConvertExtendedSpatialIDsToQuadkeysAndAltitudekeys", func() string {
			return groupsA(transform.ConvertExtendedSpatialIDsToQuadkeysAndAltitudekeys(s.ext, 20, 21, 25, 1<<24))
		}),
		I("transform.ConvertQuadkeysAndVerticalIDsToExtendedSpatialIDs", func() string {
			return sortedJoin(transform.ConvertQuadkeysAndVerticalIDsToExtendedSpatialIDs(s.qv, 7, 27))
		}),
		I("transform.ConvertQuadkeysAndVerticalIDsToExtendedSpatialIDs(bit)", func() string {
			return sortedJoin(transform.ConvertQuadkeysAndVerticalIDsToExtendedSpatialIDs(s.qvBit, 6, 26))
		}),
		I("transform.ConvertQuadkeysAndVerticalIDsToSpatialIDs", func() string { return sortedJoin(transform.ConvertQuadkeysAndVerticalIDsToSpatialIDs(s.qv, 7)) }),
		I("transform.ConvertTileXYZsToExtendedSpatialIDs", func() string {
			l, e := transform.ConvertTileXYZsToExtendedSpatialIDs(s.tiles, 25, 1<<24, 24)
			var ss []string
			for _, x := range l {
				ss = append(ss, x.ID())
			}
			return sortedJoin(ss, e)
		}),
		I("transform.ConvertTileXYZsToExtendedSpatialIDs(failing)", func() string {
			l, e := transform.ConvertTileXYZsToExtendedSpatialIDs(s.tilesFail, 26, 0, 24) // fails at the second tile, after the first was converted
			return fmt.Sprint(len(l), e)
		}),
		I("transform.ConvertTileXYZsToSpatialIDs", func() string { return sortedJoin(transform.ConvertTileXYZsToSpatialIDs(s.tiles[:2], 25, 1<<24, 22)) }),
		I("transform.ConvertExtendedSpatialIDToSpatialIDs/GetVoxelID", func() string {
			return fmt.Sprint(transform.ConvertExtendedSpatialIDToSpatialIDs(s.eid), transform.GetVoxelIDfromSpatialID(s.ext[3]), s.eid.ID(), s.eid.FieldParams())
		}),
		I("transform.ConvertZ/AltitudekeyMinMax", func() string {
			a, b, e := transform.ConvertZToMinMaxAltitudekey(-6, 27, 23, 22, 23)
			x, y, f := transform.ConvertAltitudekeyToMinMaxZ(3, 26, 26, 25, -2)
			return fmt.Sprint(a, b, e, x, y, f)
		}),
		I("transform.FitClearanceAroundExtendedSpatialID", func() string {
			h, v, e := transform.FitClearanceAroundExtendedSpatialID(s.ext[0], 60)
			return fmt.Sprint(h, v, e)
		}),
		// two clearances one ulp apart that (on the tree the pair was measured on) lie on opposite sides of a layer
		// threshold of this voxel: adjacent in the table, so the reference rounds ask them in both orders
		I("transform.FitClearanceAroundExtendedSpatialID(just below a layer threshold)", func() string {
			h, v, e := transform.FitClearanceAroundExtendedSpatialID(s.ext[0], math.Float64frombits(0x404fc054ce3ba2dc))
			return fmt.Sprint(h, v, e)
		}),
		I("transform.FitClearanceAroundExtendedSpatialID(one ulp above it)", func() string {
			h, v, e := transform.FitClearanceAroundExtendedSpatialID(s.ext[0], math.Float64frombits(0x404fc054ce3ba2dd))
			return fmt.Sprint(h, v, e)
		}),
		I("transform.FitClearanceAroundExtendedSpatialID(highlat)", func() string {
			h, v, e := transform.FitClearanceAroundExtendedSpatialID("20/85263/120000/20/0", 60)
			return fmt.Sprint(h, v, e)
		}),
		I("transform.GetExtendedSpatialIdsWithinRadiusOfLine(skip)", func() string {
			return sortedJoin(transform.GetExtendedSpatialIdsWithinRadiusOfLine(s.a, s.b, 30, 20, 20, true))
		}),
		I("transform.GetExtendedSpatialIdsWithinRadiusOfLine(measure)", func() string {
			return sortedJoin(transform.GetExtendedSpatialIdsWithinRadiusOfLine(s.a, s.b, 30, 20, 20, false))
		}),
		I("transform.GetExtendedSpatialIdsWithinRadiusOfLine(skip, lat 75, same zoom and radius)", func() string {
			return sortedJoin(transform.GetExtendedSpatialIdsWithinRadiusOfLine(s.hiA, s.hiB, 30, 20, 20, true))
		}),
		I("transform.GetExtendedSpatialIdsWithinRadiusOfLine(measure, lat 75, same zoom and radius)", func() string {
			return sortedJoin(transform.GetExtendedSpatialIdsWithinRadiusOfLine(s.hiA, s.hiB, 30, 20, 20, false))
		}),
		// calls that fail after a valid prefix, and a shared empty list with spare capacity
		I("integrate.ChangeExtendedSpatialIdsZoom(fails after valid prefix)", func() string {
			l, e := integrate.ChangeExtendedSpatialIdsZoom(s.badList, 13, 13)
			return fmt.Sprint(len(l), e)
		}),
		I("integrate.MergeExtendedSpatialIds(fails after valid prefix)", func() string {
			l, e := integrate.MergeExtendedSpatialIds(s.badList, 9, 9)
			return fmt.Sprint(len(l), e)
		}),
		I("transform.ConvertExtendedSpatialIDsToQuadkeysAndVerticalIDs(fails after valid prefix)", func() string {
			l, e := transform.ConvertExtendedSpatialIDsToQuadkeysAndVerticalIDs(s.badList, 11, 11, 0, 0)
			return fmt.Sprint(len(l), e)
		}),
		I("integrate.ChangeExtendedSpatialIdsZoom(same voxels as the failing list)", func() string { return sortedJoin(integrate.ChangeExtendedSpatialIdsZoom(s.badList[:3], 12, 11)) }),
		I("detector.CheckExtendedSpatialIdsArrayOverlap(empty list with capacity)", func() string {
			g, e := detector.CheckExtendedSpatialIdsArrayOverlap(s.emptyCap, s.ext)
			return fmt.Sprint(g, e)
		}),
		I("detector.CheckExtendedSpatialIdsArrayOverlap(empty list with capacity, other list)", func() string {
			g, e := detector.CheckExtendedSpatialIdsArrayOverlap(s.emptyCap, s.nest)
			return fmt.Sprint(g, e)
		}),
		I("detector.CheckSpatialIdsArrayOverlap(empty list with capacity)", func() string { g, e := detector.CheckSpatialIdsArrayOverlap(s.emptyCap, s.sp); return fmt.Sprint(g, e) }),
		I("operated.GetNspatialIdsAroundVoxcels(empty list with capacity)", func() string { return sortedJoin(operated.GetNspatialIdsAroundVoxcels(s.emptyCap, 1, 1)) }),
		// an obstacle list and its prefix-extension used at the same time (a tree cached for one must not serve the other)
		I("detector.CheckSpatialIdsArrayOverlap(40 obstacles, 3001 probes)", func() string { g, e := detector.CheckSpatialIdsArrayOverlap(s.obst, s.probes); return fmt.Sprint(g, e) }),
		I("detector.CheckSpatialIdsArrayOverlap(43 obstacles = the 40 + 3, 3001 probes)", func() string {
			g, e := detector.CheckSpatialIdsArrayOverlap(s.obstExt, s.probes)
			return fmt.Sprint(g, e)
		}),
		I("detector.CheckSpatialIdsArrayOverlap(43 obstacles, short probe list)", func() string {
			g, e := detector.CheckSpatialIdsArrayOverlap(s.obstExt, s.probes[:5])
			return fmt.Sprint(g, e)
		}),
		// volume: every invocation asks for the geometry of 2000 rows nobody asked for before (self-checking against the
		// closed-form row latitude), so that a round touches > 300000 distinct (zoom,row) keys
		I("shape.GetPointOnExtendedSpatialId(2000 fresh rows, self-checking)", func() string { return c19BulkRows() }),
		// common / spatial / object
		I("common.set-helpers", func() string {
			u, d, i := common.Union(s.ints, s.ints[2:]), common.Difference(s.ints, s.ints[3:]), common.Intersect(s.strs, s.strs[1:])
			uw := common.Union(s.strsWin, s.strs) // first operand is a window of a longer shared array
			sort.Strings(uw)
			d = append(d, int64(len(uw)), int64(len(common.Unique(s.strsWin))), int64(len(common.Difference(s.strsWin, s.strs[:1]))))
			q := common.Unique(s.strs)
			sort.Slice(u, func(a, b int) bool { return u[a] < u[b] })
			sort.Strings(q)
			mx, _ := common.Max(s.ints)
			mn, _ := common.Min(s.ints)
			n := 0
			common.Combinations(6, 3, func([]int64) { n++ })
			return fmt.Sprint(u, d, i, q, common.Include(s.strs, "c"), mx, mn, n, common.CalculateArithmeticShift(-7, -1))
		}),
		I("spatial.vectors", func() string {
			a, b := spatial.Vector3{X: 1, Y: 2, Z: 3}, spatial.Vector3{X: -1, Y: -2.000001, Z: -3}
			return fmt.Sprint(spatial.RotateBetweenVector(a, b), a.Cross(b), spatial.NewLineFromPoints(spatial.Point3(a), spatial.Point3(b)).ToPoint(0.5), spatial.NewUnitMatrix3().MulVec(a))
		}),
		I("remaining exported helpers (angles, points, matrices, quaternions, errors, merge building blocks)", func() string {
			pts := []*spatial.Point3{{X: 1, Y: 2, Z: 3}, {X: -4, Y: 0.5, Z: 9}, {X: 1, Y: 2, Z: 3.0000000001}}
			up := spatial.UniqueAppend(pts[:2], pts[2], 1e-6)
			mxp, e1 := spatial.MaxPoint(pts, spatial.Vector3{X: 0.2, Y: -1, Z: 0.5})
			mnp, e2 := spatial.MinPoint(pts, spatial.Vector3{X: 0.2, Y: -1, Z: 0.5})
			m := spatial.NewMatrix3(1, 2, 3, 0, 1, 4, 5, 6, 0)
			q := spatial.QuatFromAxisAngle(spatial.Vector3{X: 1, Y: 1}, 0.75)
			v := spatial.NewVectorFromPoints(*pts[0], *pts[1])
			x1, x2, y1, y2 := integrate.HorizontalZoomMinMax(5, 10, 12, 7)
			u1 := integrate.NewUnitDividedSpatialID(s.eid, 1, 1)
			o2, _ := object.NewExtendedSpatialID("7/25/53/5/19")
			u2 := integrate.NewUnitDividedSpatialID(o2, 1, 1)
			h1, h2 := integrate.NewHighSpatialID(u1, 1, 1), integrate.NewHighSpatialID(u2, 1, 1)
			h1.Merge(h2)
			o3, _ := object.NewExtendedSpatialID("1/0/0/1/0")
			e3 := o3.ResetExtendedSpatialID("9/3/4/8/-2")
			return fmt.Sprint(common.AlmostEqual(1, 1+1e-12, 1e-10), common.DegreeToRadian(33.5), common.RadianToDegree(0.77), len(up), *mxp, e1, *mnp, e2,
				m.Mul(m), q, v, x1, x2, y1, y2, h1.IsDense(), o3.ID(), e3, o3.Higher(1, 1).ID(), sperrors.NewSpatialIdError(sperrors.InputValueErrorCode, "x"))
		}),
		// the exported merge building blocks with a SHARED argument: six of the eight children of 4/5/6/4/1, merged once at
		// build time, are merged into fresh receivers; Merge reads its argument, it must not write to it
		I("integrate.HighSpatialID.Merge(shared six children) into a seventh", func() string {
			r := c19High("5/11/13/5/2")
			r.Merge(s.highShared)
			return fmt.Sprint(r.IsDense(), s.highShared.IsDense())
		}),
		I("integrate.HighSpatialID.Merge(shared six children) into the other two", func() string {
			r := c19High("5/11/13/5/2")
			r.Merge(c19High("5/11/13/5/3"))
			r.Merge(s.highShared)
			return fmt.Sprint(r.IsDense(), s.highShared.IsDense())
		}),
		I("object.constructors", func() string {
			p, e1 := object.NewPoint(12.5, -33.00000000005, 7)
			x, e2 := object.NewExtendedSpatialID(s.ext[3])
			t, e3 := object.NewTileXYZ(3, 1, 2, 3, 4)
			return fmt.Sprint(*p, e1, x.ID(), e2, *t, e3, shape.CheckZoom(35))
		}),
	}
	return s, insts
}

// ---- library globals watch (no source hook: symbols of the running binary) ----

type c19Global struct {
	name string
	addr uint64
	size uint64
}

func c19Globals() []c19Global {
	exe, err := os.Executable()
	if err != nil {
		return nil
	}
	f, err := elf.Open(exe)
	if err != nil {
		return nil
	}
	defer f.Close()
	syms, err := f.Symbols()
	if err != nil {
		return nil
	}
	var out []c19Global
	for _, s := range syms {
		if elf.ST_TYPE(s.Info) != elf.STT_OBJECT || s.Size == 0 || s.Size > 1<<16 || int(s.Section) >= len(f.Sections) {
			continue
		}
		if !strings.HasPrefix(s.Name, "github.com/trajectoryjp/spatial_id_go/v4/") {
			continue
		}
		sec := f.Sections[s.Section]
		if sec.Flags&elf.SHF_WRITE == 0 { // read-only data cannot change
			continue
		}
		out = append(out, c19Global{s.Name, s.Value, s.Size})
	}
	sort.Slice(out, func(i, j int) bool { return out[i].name < out[j].name })
	return out
}

//go:nocheckptr
func c19Peek(addr, size uint64) []byte {
	b := make([]byte, size)
	src := unsafe.Slice((*byte)(unsafe.Pointer(uintptr(addr))), size)
	copy(b, src)
	return b
}

func c19SnapGlobals(gs []c19Global) map[string]string {
	m := map[string]string{}
	for _, g := range gs {
		if strings.Contains(g.name, "inittask") || strings.Contains(g.name, ".stmp_") || strings.Contains(g.name, "..dict") {
			continue
		}
		m[g.name] = fmt.Sprintf("%x", c19Peek(g.addr, g.size))
	}
	return m
}

type c19Call struct {
	inst       int
	start, end uint64
}

func runC19(c *core.Case) {
	r := c.R
	round := c.I
	procs := []int{4, 16, 2, 8}[round%4]
	if procs > runtime.NumCPU() {
		procs = runtime.NumCPU()
	}
	G := []int{8, 32, 64, 16}[(round/4+round)%4]
	ops := 250
	if c.Tier == "thorough" {
		ops = 600
	}
	shared, insts := c19Build()
	record := func(k int, res string) {
		c.SetAdd("results", fmt.Sprintf("%s|%016x", insts[k].name, core.HashStr(res)))
	}
	if round < 2 {
		// reference rounds: every instance alone, in ascending (round 0) / descending (round 1) table order, each in
		// its own fresh process. The post-run hook requires every instance to have ONE result across the reference
		// rounds and all concurrent rounds, so a result that depends on which calls came before is caught even when
		// the dependence is sequential (coarsely keyed cache, state left behind by a failed call).
		c.KI(round)
		c.Tag("reference-round")
		c.NonTrivial()
		for j := range insts {
			k := j
			if round == 1 {
				k = len(insts) - 1 - j
			}
			record(k, insts[k].run())
			c.Call()
		}
		c.Desc = func() any {
			return map[string]any{"round": round, "kind": "sequential reference", "order": map[int64]string{0: "ascending", 1: "descending"}[round], "instances": len(insts)}
		}
		return
	}
	old := runtime.GOMAXPROCS(procs)
	defer runtime.GOMAXPROCS(old)
	before := shared.snapshot()
	globals := c19Globals()
	gBefore := c19SnapGlobals(globals)
	c.KI(round, int64(procs), int64(G))
	c.Tag(fmt.Sprintf("GOMAXPROCS=%d", procs))
	c.SetAdd("worker_pids", fmt.Sprintf("%d=round%d", os.Getpid(), round))
	for n := range gBefore {
		c.SetAdd("library_globals_watched", n)
	}

	// ---- parallel phase first (cold start) ----
	var ticket atomic.Uint64
	results := make([][]string, G)
	calls := make([][]c19Call, G)
	seqs := make([][]int, G)
	for g := 0; g < G; g++ {
		seqs[g] = make([]int, ops)
		perm := r.Perm(len(insts)) // cold start: every goroutine first walks all instances in its own order, so the
		for i := range seqs[g] {   // first use of every function (and of anything initialised lazily) happens concurrently
			if i < len(perm) && i < ops {
				seqs[g][i] = perm[i]
			} else {
				seqs[g][i] = r.Intn(len(insts))
			}
		}
		results[g] = make([]string, ops)
		calls[g] = make([]c19Call, ops)
	}
	yields := make([][]bool, G)
	for g := range yields {
		yields[g] = make([]bool, ops)
		for i := range yields[g] {
			yields[g][i] = r.P(0.1)
		}
	}
	var wg sync.WaitGroup
	barrier := make(chan struct{})
	panics := make([]string, G)
	for g := 0; g < G; g++ {
		wg.Add(1)
		go func(g int) {
			defer wg.Done()
			defer func() {
				if p := recover(); p != nil {
					panics[g] = fmt.Sprint(p)
				}
			}()
			<-barrier
			for i, k := range seqs[g] {
				if yields[g][i] {
					runtime.Gosched()
				}
				st := ticket.Add(1)
				res := insts[k].run()
				en := ticket.Add(1)
				results[g][i] = res
				calls[g][i] = c19Call{k, st, en}
			}
		}(g)
	}
	close(barrier)
	wg.Wait()
	c.Calls(G * ops)

	// ---- every instance alone ----
	alone := make([]string, len(insts))
	for k := range insts {
		alone[k] = insts[k].run()
	}
	c.Calls(len(insts))
	again := make([]string, len(insts))
	for k := range insts {
		again[k] = insts[k].run()
	}
	after := shared.snapshot()
	gAfter := c19SnapGlobals(globals)

	// interleaving evidence
	type ev struct {
		t     uint64
		start bool
		inst  int
		id    int
	}
	var evs []ev
	id := 0
	for g := range calls {
		for _, cl := range calls[g] {
			if cl.end == 0 {
				continue
			}
			evs = append(evs, ev{cl.start, true, cl.inst, id}, ev{cl.end, false, cl.inst, id})
			id++
		}
	}
	sort.Slice(evs, func(i, j int) bool { return evs[i].t < evs[j].t })
	active := map[int]int{}
	overlapped := map[int]bool{}
	kindPairs := map[[2]int]bool{}
	for _, e := range evs {
		if e.start {
			for oid, oinst := range active {
				overlapped[oid], overlapped[e.id] = true, true
				a, b := oinst, e.inst
				if a > b {
					a, b = b, a
				}
				kindPairs[[2]int{a, b}] = true
			}
			active[e.id] = e.inst
		} else {
			delete(active, e.id)
		}
	}
	totalPairs := len(insts) * (len(insts) + 1) / 2
	c.Obs("calls_in_parallel_phase", float64(id))
	c.Obs("call_intervals_that_overlapped_another", float64(len(overlapped)))
	c.Obs("distinct_instance_kind_pairs_seen_overlapping", float64(len(kindPairs)))
	c.Obs("instance_kind_pairs_possible", float64(totalPairs))
	c.Obs("goroutines", float64(G))
	var obs []string
	c.Desc = func() any {
		return map[string]any{"round": round, "GOMAXPROCS": procs, "goroutines": G, "ops_per_goroutine": ops, "instances": len(insts),
			"overlapping_call_intervals": len(overlapped), "kind_pairs_overlapping": len(kindPairs), "globals_watched": len(gBefore), "observed": obs}
	}
	for g, p := range panics {
		if p != "" {
			c.Fail("concurrent-panic", nil, "goroutine %d panicked during the parallel phase: %s", g, p)
			return
		}
	}
	for k := range insts {
		if alone[k] != again[k] {
			c.Fail("sequential-result-unstable:"+insts[k].name, nil, "%s run alone twice gives different results:\n  %s\n  %s", insts[k].name, trunc1(alone[k]), trunc1(again[k]))
			return
		}
	}
	for k := range insts {
		record(k, alone[k])
	}
	for g := range results {
		for i, k := range seqs[g] {
			if results[g][i] != alone[k] {
				record(k, results[g][i])
				c.Fail("concurrent-result-differs:"+insts[k].name, nil, "%s (goroutine %d, op %d of the parallel phase) returned\n  %s\nrun alone it returns\n  %s", insts[k].name, g, i, trunc1(results[g][i]), trunc1(alone[k]))
				return
			}
		}
	}
	if before != after {
		c.Fail("shared-argument-modified", nil, "a shared argument changed during the round:\n before %s\n after  %s", trunc1(before), trunc1(after))
		return
	}
	changed := []string{}
	for n, v := range gBefore {
		if gAfter[n] != v {
			changed = append(changed, n)
		}
	}
	sort.Strings(changed)
	for _, n := range changed {
		c.SetAdd("library_globals_changed", n)
	}
	if v, ok := gAfter["github.com/trajectoryjp/spatial_id_go/v4/transform.alt25"]; ok {
		want := fmt.Sprintf("%x", c19PeekFloat(math.Pow(2, 25)))
		if v != want {
			c.Fail("global-canary-changed", nil, "transform.alt25 changed: bytes %s, want %s", v, want)
			return
		}
		c.Tag("canary-alt25-checked")
	}
	if len(changed) > 0 {
		obs = append(obs, fmt.Sprintf("library globals changed (reported, not a violation by itself): %v", changed))
	}
	if len(overlapped) < 1000 || len(kindPairs)*4 < totalPairs {
		c.Inconclusive("too-little-overlap")
		return
	}
	c.NonTrivial()
}

func c19PeekFloat(f float64) []byte {
	b := make([]byte, 8)
	u := math.Float64bits(f)
	for i := 0; i < 8; i++ {
		b[i] = byte(u >> (8 * i))
	}
	return b
}

// c19Post counts race-detector report blocks in the log files of the worker processes.
func c19Post(env *core.Env, sum *core.Summary) {
	files, _ := filepath.Glob(filepath.Join(env.WorkDir, "race.*"))
	blocks := 0
	seen := map[string]bool{}
	pidRound := map[string]int64{}
	for _, s := range sum.Sets["worker_pids"] {
		var pid string
		var round int64
		if i := strings.Index(s, "=round"); i > 0 {
			pid = s[:i]
			fmt.Sscan(s[i+6:], &round)
			pidRound[pid] = round
		}
	}
	for _, f := range files {
		b, err := os.ReadFile(f)
		if err != nil {
			continue
		}
		pid := strings.TrimPrefix(filepath.Ext(f), ".")
		for _, blk := range strings.Split(string(b), "==================") {
			if !strings.Contains(blk, "WARNING: DATA RACE") {
				continue
			}
			blocks++
			// de-duplicate by the first library frames of both stacks
			var frames []string
			for _, line := range strings.Split(blk, "\n") {
				t := strings.TrimSpace(line)
				if strings.HasPrefix(t, "github.com/trajectoryjp/") || strings.HasPrefix(t, "github.com/wroge/") {
					frames = append(frames, strings.SplitN(t, "(", 2)[0])
				}
			}
			key := strings.Join(frames, " <- ")
			if len(key) > 400 {
				key = key[:400]
			}
			if seen[key] {
				continue
			}
			seen[key] = true
			sum.NViolations++
			sum.ByClass["data-race"]++
			if len(sum.Violations) < 50 {
				txt := blk
				if len(txt) > 6000 {
					txt = txt[:6000]
				}
				sum.Violations = append(sum.Violations, core.Witness{Property: "C19", Tier: env.Tier, Seed: env.Seed, Index: pidRound[pid], Class: "data-race",
					Reason: "race detector report in round " + fmt.Sprint(pidRound[pid]) + ": " + key, Stack: txt})
			}
		}
	}
	// one result per instance across reference rounds and concurrent rounds
	byInst := map[string]map[string]bool{}
	for _, e := range sum.Sets["results"] {
		if i := strings.LastIndex(e, "|"); i > 0 {
			if byInst[e[:i]] == nil {
				byInst[e[:i]] = map[string]bool{}
			}
			byInst[e[:i]][e[i+1:]] = true
		}
	}
	var unstable []string
	for n, hs := range byInst {
		if len(hs) > 1 {
			unstable = append(unstable, n)
		}
	}
	sort.Strings(unstable)
	for _, n := range unstable {
		sum.NViolations++
		sum.ByClass["history-dependent-result"]++
		sum.Violations = append(sum.Violations, core.Witness{Property: "C19", Tier: env.Tier, Seed: env.Seed, Index: 0, Class: "history-dependent-result",
			Reason: fmt.Sprintf("%s returned %d different results on identical arguments across the ascending/descending reference rounds and the concurrent rounds (its result depends on which calls ran before it)", n, len(byInst[n]))})
	}
	sum.Extra["instances_with_single_result_everywhere"] = len(byInst) - len(unstable)
	delete(sum.Sets, "results")
	sum.Extra["race_report_blocks"] = blocks
	sum.Extra["race_reports_distinct"] = len(seen)
	sum.Extra["race_log_files"] = len(files)
}

var c19RowCounter atomic.Int64

// c19BulkRows queries 2000 rows never queried before in this process (zoom 28..31) and checks each answer against the
// closed-form latitude of the row; returns "ok" or the first mismatch.
func c19BulkRows() string {
	base := c19RowCounter.Add(2000) - 2000
	z := int64(28 + base/2000%4)
	for i := int64(0); i < 2000; i++ {
		y := (base*7919 + i*104729) % pow2(z)
		if y < 0 {
			y += pow2(z)
		}
		id := ref.ID{H: z, X: (base + i) % pow2(z), Y: y, V: 10, F: 3}
		pts, err := shape.GetPointOnExtendedSpatialId(id.Ext(), enum.Vertex)
		if err != nil || len(pts) != 8 {
			return fmt.Sprintf("row %d at zoom %d: %d points, err %v", y, z, len(pts), err)
		}
		n, so := ref.LatOfRow(float64(y), z), ref.LatOfRow(float64(y+1), z)
		if math.Abs(pts[0].Lat()-n) > 1.2e-10 || math.Abs(pts[2].Lat()-so) > 1.2e-10 {
			return fmt.Sprintf("row %d at zoom %d: north %v south %v, closed form %v %v", y, z, pts[0].Lat(), pts[2].Lat(), n, so)
		}
	}
	return "ok"
}
