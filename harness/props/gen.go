// Package props holds one monitor per property: workload generator + oracle, registered with core.
package props

import (
	"fmt"
	"hash/crc32"
	"math"
	"strconv"
	"strings"
	"sync"
	"sync/atomic"

	"verifmon/core"
	"verifmon/ref"
)

func pow2(n int64) int64 { return int64(1) << uint(n) }

// edgeIndex draws an index in [0,n): uniform, or one of the edges 0, 1, n-2, n-1, or a value with many
// leading zero bits.
func edgeIndex(r *core.Rng, n int64) int64 {
	switch r.Intn(8) {
	case 0:
		return 0
	case 1:
		return n - 1
	case 2:
		if n > 1 {
			return 1
		}
		return 0
	case 3:
		if n > 2 {
			return n - 2
		}
		return n - 1
	case 4:
		return r.I64n(n) >> uint(r.Intn(36))
	}
	return r.I64n(n)
}

// edgeF draws a vertical index in [-2^v, 2^v): both signs, with emphasis on -1, 0, the extremes, and -2^k, -2^k±1.
func edgeF(r *core.Rng, v int64) int64 {
	m := pow2(v)
	clamp := func(f int64) int64 {
		if f < -m {
			return -m
		}
		if f >= m {
			return m - 1
		}
		return f
	}
	switch r.Intn(12) {
	case 0:
		return clamp(-1)
	case 1:
		return 0
	case 2:
		return -m
	case 3:
		return m - 1
	case 4:
		k := pow2(r.Range(0, v))
		return clamp(-k + r.Range(-1, 1))
	case 5:
		k := pow2(r.Range(0, v))
		return clamp(k + r.Range(-1, 1))
	case 6:
		return clamp(-r.Range(1, 9))
	case 7, 8:
		return -1 - r.I64n(m)
	}
	return r.Range(-m, m-1)
}

// genID draws a valid ID with zooms in [hlo,hhi] x [vlo,vhi].
func genID(r *core.Rng, hlo, hhi, vlo, vhi int64) ref.ID {
	h := r.Range(hlo, hhi)
	v := r.Range(vlo, vhi)
	n := pow2(h)
	return ref.ID{H: h, X: edgeIndex(r, n), Y: edgeIndex(r, n), V: v, F: edgeF(r, v)}
}

// genZoom draws a zoom in 0..35 with emphasis on the ends and on 25/26 (the 1 m level) and 30/31, 33/34 (thresholds).
func genZoom(r *core.Rng) int64 {
	if r.P(0.25) {
		return []int64{0, 1, 2, 24, 25, 26, 30, 31, 33, 34, 35}[r.Intn(11)]
	}
	return r.Range(0, 35)
}

func clampI(v, lo, hi int64) int64 {
	if v < lo {
		return lo
	}
	if v > hi {
		return hi
	}
	return v
}

// descendant draws a random descendant of a at zooms (h,v) >= (a.H,a.V).
func descendant(r *core.Rng, a ref.ID, h, v int64) ref.ID {
	dh, dv := uint(h-a.H), uint(v-a.V)
	return ref.ID{H: h, X: a.X<<dh + r.I64n(int64(1)<<dh), Y: a.Y<<dh + r.I64n(int64(1)<<dh), V: v, F: a.F<<dv + r.I64n(int64(1)<<dv)}
}

// ancestor returns the floor ancestor of a at zooms (h,v) <= (a.H,a.V).
func ancestor(a ref.ID, h, v int64) ref.ID {
	dh, dv := uint(a.H-h), uint(a.V-v)
	return ref.ID{H: h, X: a.X >> dh, Y: a.Y >> dh, V: v, F: a.F >> dv}
}

func shuffleStrings(r *core.Rng, l []string) []string {
	out := make([]string, len(l))
	for i, j := range r.Perm(len(l)) {
		out[i] = l[j]
	}
	return out
}

func copyStrings(l []string) []string {
	if l == nil {
		return nil
	}
	return append([]string{}, l...)
}

func sameStrings(a, b []string) bool {
	if len(a) != len(b) || (a == nil) != (b == nil) {
		return false
	}
	for i := range a {
		if a[i] != b[i] {
			return false
		}
	}
	return true
}

func keyStrings(c *core.Case, l []string) {
	for _, s := range l {
		c.KS(s)
	}
}

func trunc(l []string, n int) []string {
	if len(l) > n {
		return append(append([]string{}, l[:n]...), "…")
	}
	return l
}

// next/prev float
func up(x float64) float64   { return math.Nextafter(x, math.Inf(1)) }
func down(x float64) float64 { return math.Nextafter(x, math.Inf(-1)) }

func tierN(quick, thorough int64) func(string) int64 {
	return func(t string) int64 {
		if t == "thorough" {
			return thorough
		}
		return quick
	}
}

// cornerFirst builds the hostile list shape "small voxels sitting in the extreme corners of a big one, then the big
// one": [min-corner descendant, max-corner descendant, (random descendants), P]. De-duplication shortcuts that look
// only at the first/last element of a block, or at what earlier inputs produced, break on it.
func cornerFirst(r *core.Rng, P ref.ID, dh, dv int64) []ref.ID {
	h, v := P.H+dh, P.V+dv
	udh, udv := uint(dh), uint(dv)
	lo := ref.ID{H: h, X: P.X << udh, Y: P.Y << udh, V: v, F: P.F << udv}
	hi := ref.ID{H: h, X: (P.X+1)<<udh - 1, Y: (P.Y+1)<<udh - 1, V: v, F: (P.F+1)<<udv - 1}
	out := []ref.ID{lo, hi}
	for k := r.Intn(3); k > 0; k-- {
		out = append(out, descendant(r, P, h, v))
	}
	if r.P(0.3) {
		out[0], out[1] = out[1], out[0]
	}
	return append(out, P)
}

// ---- hostile shapes added after the second wave of seeded changes ----

// longLen draws a list length around the sizes at which implementations switch to batching or worker pools.
func longLen(r *core.Rng) int {
	base := []int{4095, 4096, 4097, 8191, 8192, 8193, 12288, 16384, 1024, 1025}[r.Intn(10)]
	if r.P(0.3) {
		return 8192 + r.Intn(4100)
	}
	return base
}

// decimalEdge draws a magnitude at a decimal digit-length boundary: 10^k + d (d in -2..2), i.e. also 99..9 and 99..8.
func decimalEdge(r *core.Rng, kmin, kmax int64) int64 {
	k := r.Range(kmin, kmax)
	v := int64(1)
	for i := int64(0); i < k; i++ {
		v *= 10
	}
	return v + r.Range(-2, 2)
}

// flipHigh flips one high bit of an index of zoom h (the top bits, bit 32/31 and bit 24): siblings that truncated
// or packed keys confuse with the original.
func flipHigh(r *core.Rng, x, h int64) int64 {
	if h == 0 {
		return x
	}
	cands := []int64{h - 1, h - 2, 32, 31, 30, 24, 16}
	k := cands[r.Intn(len(cands))]
	if k < 0 || k >= h {
		k = h - 1
	}
	return x ^ (int64(1) << uint(k))
}

// malformedAfter appends a malformed ID to a valid list (the failing call leaves through the error path after
// having processed the valid prefix): used as a "poison" call before a judged call in the same process.
func malformedAfter(r *core.Rng, valid []string) []string {
	bad := []string{"1/2/3", "", "5/b/0/0/0", "7/1/1/7", "9/0/0/9/1.5"}[r.Intn(5)]
	return append(append([]string{}, valid...), bad)
}

// ---- IDs that collide under common 32-bit string hashes ----
//
// A cache that uses a 32-bit hash of the ID string as its identity (without comparing the string) returns another
// voxel's data once in 2^32 consecutive pairs - out of reach for random inputs, but a birthday search over a few
// hundred thousand valid IDs finds colliding pairs for each common hash in a fraction of a second.

var collisionOnce sync.Once
var collisionPairs [][2]string

func fnv32a(s string) uint32 {
	h := uint32(2166136261)
	for i := 0; i < len(s); i++ {
		h ^= uint32(s[i])
		h *= 16777619
	}
	return h
}
func fnv32(s string) uint32 {
	h := uint32(2166136261)
	for i := 0; i < len(s); i++ {
		h *= 16777619
		h ^= uint32(s[i])
	}
	return h
}
func javaHash(s string) uint32 {
	var h uint32
	for i := 0; i < len(s); i++ {
		h = 31*h + uint32(s[i])
	}
	return h
}

// hashCollisionPairs returns pairs of distinct valid extended IDs of equal length that collide under FNV-1a/32,
// FNV-1/32, CRC-32 (IEEE), Adler-32 or the Java string hash. The pool is a pure function of a fixed seed.
func hashCollisionPairs() [][2]string {
	collisionOnce.Do(func() {
		r := core.NewRng(20260928, "hash-collision-pool", 0)
		hashes := []func(string) uint32{fnv32a, fnv32, func(s string) uint32 { return crc32.ChecksumIEEE([]byte(s)) }, javaHash}
		type key struct {
			f int
			h uint32
		}
		seen := make(map[key]string, 1<<21)
		perHash := map[int]int{}
		// all strings have the same length (fixed digit counts), so a cache that also compares lengths is fooled too
		for i := 0; i < 400000; i++ {
			id := ref.ID{H: 25, X: 10000000 + r.I64n(23000000), Y: 10000000 + r.I64n(23000000), V: 25, F: 10000000 + r.I64n(23000000)}
			if r.Bool() {
				id.F = -id.F
			}
			s := id.Ext()
			for f, hf := range hashes {
				k := key{f, hf(s)}
				if f == 0 || f == 1 { // keep lengths equal per sign class
					k.h ^= uint32(len(s)) << 28
				}
				if o, ok := seen[k]; ok && o != s && len(o) == len(s) && hf(o) == hf(s) {
					if perHash[f] < 24 {
						perHash[f]++
						collisionPairs = append(collisionPairs, [2]string{o, s})
					}
				} else if !ok {
					seen[k] = s
				}
			}
		}
	})
	return collisionPairs
}

// veryLongLen draws a list length beyond 2^15: at and just above 2^15, 2^16 and 2^17 (not multiples of small worker
// counts), where implementations may switch to parallel or block-wise processing.
func veryLongLen(r *core.Rng) int {
	return []int{32768, 32771, 32773, 40001, 65536, 65539, 66361, 131075}[r.Intn(8)]
}

// respell rewrites the numerals of a valid ID in a non-canonical but parser-accepted way ("+5", "05", "-0").
func respell(r *core.Rng, id string) string {
	f := strings.Split(id, "/")
	i := r.Intn(len(f))
	if r.P(0.15) { // leading zeros (the numeral is still the same number): 1..40 of them, sometimes up to 120 (IDs of 100..300 bytes)
		n := r.Range(1, 40)
		if r.P(0.3) {
			n = r.Range(41, 120)
		}
		z := strings.Repeat("0", int(n))
		others := r.P(0.3)
		for k := range f {
			if k == i || (others && r.P(0.5)) {
				if strings.HasPrefix(f[k], "-") {
					f[k] = "-" + z + f[k][1:]
				} else {
					f[k] = z + f[k]
				}
			}
		}
		return strings.Join(f, "/")
	}
	switch {
	case f[i] == "0" && r.Bool():
		f[i] = "-0"
	case !strings.HasPrefix(f[i], "-") && r.Bool():
		f[i] = "+" + f[i]
	case strings.HasPrefix(f[i], "-"):
		f[i] = "-0" + f[i][1:]
	default:
		f[i] = "00" + f[i]
	}
	return strings.Join(f, "/")
}

// packedAlias returns, for the index x at zoom h, an index x2 at a different zoom h2 such that a key that packs zoom
// and index into one integer as zoom<<k | index (or zoom<<k + index) with k too small for the index is the same for
// both: x2 = x + (h-h2)<<k, k in {32, 33, 34, 30, 24}. ok is false when no such zoom/index exists for the draw.
func packedAlias(r *core.Rng, x, h int64) (x2, h2 int64, ok bool) {
	k := []uint{32, 32, 33, 34, 30, 24}[r.Intn(6)]
	d := r.Range(1, 2)
	if r.Bool() {
		d = -d
	}
	h2 = h + d
	if h2 < 0 || h2 > 35 {
		return 0, 0, false
	}
	x2 = x - d<<k
	if x2 < 0 || x2 >= pow2(h2) {
		return 0, 0, false
	}
	return x2, h2, true
}

// packedAliasID draws a pair of IDs (different horizontal zooms >= 25) whose x AND y collide under a packed
// (zoom<<k + index) key while all other fields agree.
func packedAliasID(r *core.Rng) (a, b ref.ID, ok bool) {
	for try := 0; try < 20; try++ {
		k := []uint{32, 32, 33, 30, 24}[r.Intn(5)]
		h := r.Range(int64(k)+1, 35)
		d := r.Range(1, 2)
		if h+d > 35 {
			d = 1
		}
		if h+d > 35 {
			continue
		}
		// a at zoom h+d with small indices, b at zoom h with index + d<<k
		v := genZoom(r)
		a = ref.ID{H: h + d, X: r.I64n(pow2(int64(k))), Y: r.I64n(pow2(int64(k))), V: v, F: edgeF(r, v)}
		if r.Bool() {
			a.X, a.Y = r.Range(0, 9), r.Range(0, 9)
		}
		b = a
		b.H = h
		b.X, b.Y = a.X+d<<k, a.Y+d<<k
		if r.P(0.3) {
			b.Y = a.Y // only x aliased; y literally equal
		}
		if b.X >= pow2(h) || b.Y >= pow2(h) {
			continue
		}
		if r.Bool() {
			a, b = b, a
		}
		return a, b, true
	}
	return a, b, false
}

// hammer is the concurrent scenario of the single-call monitors: G goroutines, released together, each perform n
// judged calls (step draws the arguments from the goroutine's own PRNG, calls the library and judges the result on
// the goroutine's scratch case against the sequential reference model). A result that is wrong only when other calls
// are in flight (lock-free caches, shared scratch buffers) is reported with class prefix "concurrent:".
func hammer(c *core.Case, G, n int, step func(r *core.Rng, sc *core.Case)) bool {
	seed := int64(c.R.U64() >> 1)
	scs := make([]*core.Case, G)
	var wg sync.WaitGroup
	barrier := make(chan struct{})
	var stop atomic.Bool
	for g := 0; g < G; g++ {
		scs[g] = core.Scratch(core.NewRng(seed, "hammer", int64(g)))
		wg.Add(1)
		go func(sc *core.Case) {
			defer wg.Done()
			defer func() {
				if p := recover(); p != nil {
					sc.Fail("panic", nil, "panic: %v", p)
					stop.Store(true)
				}
			}()
			<-barrier
			for i := 0; i < n && !stop.Load(); i++ {
				step(sc.R, sc)
				if sc.Failed() {
					stop.Store(true)
				}
			}
		}(scs[g])
	}
	close(barrier)
	wg.Wait()
	c.Tag("concurrent-hammer")
	for g, sc := range scs {
		c.Adopt(sc, "concurrent:", fmt.Sprintf("goroutine %d of %d calling concurrently", g, G))
	}
	return !c.Failed()
}

// truncAliasPair draws (P, c): P has vertical index 0, c has P's footprint (or lies inside it) at a finer vertical zoom
// with a negative index in (-2^d, 0). c is NOT inside P (floor(c.F / 2^d) = -1), but an index lowered with a division
// that truncates toward zero gives 0: containment tests written with "/" instead of a floor confuse the two.
func truncAliasPair(r *core.Rng) (P, c ref.ID) {
	P = genID(r, 0, 33, 0, 32)
	P.F = 0
	d := r.Range(1, 3)
	dh := r.Range(0, 2)
	if r.Bool() {
		dh = 0
	}
	c = ref.ID{H: P.H + dh, X: P.X<<uint(dh) + r.I64n(pow2(dh)), Y: P.Y<<uint(dh) + r.I64n(pow2(dh)), V: P.V + d, F: -r.Range(1, pow2(d)-1)}
	return
}

// looseFields parses n '/'-separated numerals the way the library's integer parser does (signs and leading zeros
// accepted): used where the spelling of a result is not prescribed, only the voxel it names.
func looseFields(s string, n int) ([]int64, bool) {
	f := strings.Split(s, "/")
	if len(f) != n {
		return nil, false
	}
	out := make([]int64, n)
	for i, x := range f {
		v, err := strconv.ParseInt(x, 10, 64)
		if err != nil {
			return nil, false
		}
		out[i] = v
	}
	return out, true
}

func looseExt(s string) (ref.ID, bool) {
	v, ok := looseFields(s, 5)
	if !ok {
		return ref.ID{}, false
	}
	return ref.ID{H: v[0], X: v[1], Y: v[2], V: v[3], F: v[4]}, true
}

func looseSpatial(s string) (ref.ID, bool) {
	v, ok := looseFields(s, 4)
	if !ok {
		return ref.ID{}, false
	}
	return ref.ID{H: v[0], X: v[2], Y: v[3], V: v[0], F: v[1]}, true
}
