package props

import (
	"fmt"
	"math"

	"github.com/trajectoryjp/spatial_id_go/v4/common/enum"
	"github.com/trajectoryjp/spatial_id_go/v4/common/object"
	"github.com/trajectoryjp/spatial_id_go/v4/shape"

	"verifmon/core"
	"verifmon/ref"
)

// C02 — an ID is mapped back to the geometry of its voxel, and the grid tiles space.
func init() {
	core.Register(&core.Monitor{
		ID:        "C02",
		Technique: "reference-model monitor (exact rational longitudes/altitudes, closed-form inverse Mercator with truncation tolerance) + round-trip and shared-face relations between calls + concurrent scenarios (4-64 goroutines issuing the same judged calls at once) + hostile scheduler widths",
		Rule: "per case: a valid ID (h,v uniform in 0..35 with emphasis on 0,1,35; x,y uniform plus first/last row and column; f of both signs plus -2^v and 2^v-1), both notations and both options. " +
			"Oracle: 8 corners in the order NW,NE,SE,SW bottom then top with lon = 360x/2^h-180 (4 ulp), lat = atan(sinh(pi(1-2y/2^h))) cut toward zero at 1e-10 deg (tolerance 1.2e-10), alt = f*2^(25-v) exact; " +
			"centre = midpoint; centre -> ID at the same zooms returns the ID exactly; two random interior points (25 % margin) map back to the ID; east(x)==west(x+1) (+-180 identified at the wrap), south(y)==north(y+1), top(f)==bottom(f+1) compared bitwise on the returned floats. " +
			"Non-trivial = h+v > 0; distinct by ID.",
		Assume: []string{"latitude tolerance 1.2e-10 deg = documented truncation + float error of the inverse Mercator", "centre of a voxel is >= 4.5e-10 deg inside it even at h=35 near the latitude limit, so the round trip needs no band"},
		N:      tierN(250_000, 5_000_000),
		Floor:  tierN(1000, 10000),
		Run:    runC02,
	})
}

func ulps(a, b float64) float64 {
	if a == b {
		return 0
	}
	u := math.Nextafter(math.Max(math.Abs(a), math.Abs(b)), math.Inf(1)) - math.Max(math.Abs(a), math.Abs(b))
	return math.Abs(a-b) / u
}

type box struct{ w, e, n, s, b, t float64 }

// c02Vertices fetches and checks the 8 corners of id; returns the box read off the returned points.
func c02Vertices(c *core.Case, id ref.ID, s string, pts []*object.Point, who string) (box, bool) {
	if len(pts) != 8 {
		c.Fail("vertex-count", nil, "%s(%s, Vertex) returned %d points, want 8", who, s, len(pts))
		return box{}, false
	}
	for i, p := range pts {
		if p == nil {
			c.Fail("vertex-nil", nil, "%s(%s, Vertex): point %d is nil", who, s, i)
			return box{}, false
		}
	}
	west := ref.LonOfColExact(id.X, id.H)
	east := ref.LonOfColExact(id.X+1, id.H)
	north := ref.LatOfRow(float64(id.Y), id.H)
	south := ref.LatOfRow(float64(id.Y+1), id.H)
	res := math.Ldexp(1, int(25-id.V))
	bottom := float64(id.F) * res
	top := float64(id.F+1) * res
	// documented order: NW, NE, SE, SW (bottom), then the same four on top
	wantLon := []float64{west, east, east, west, west, east, east, west}
	wantLat := []float64{north, north, south, south, north, north, south, south}
	wantAlt := []float64{bottom, bottom, bottom, bottom, top, top, top, top}
	names := []string{"NW-bottom", "NE-bottom", "SE-bottom", "SW-bottom", "NW-top", "NE-top", "SE-top", "SW-top"}
	for i, p := range pts {
		if math.Abs(p.Lon()-wantLon[i]) > 4*math.Nextafter(180, 181)-4*180 {
			c.Fail("vertex-lon", nil, "%s(%s): corner %d (%s) lon %v, want %v", who, s, i, names[i], p.Lon(), wantLon[i])
			return box{}, false
		}
		// latitude: stored value is the real edge cut toward zero by < 1e-10 deg
		if d := math.Abs(p.Lat() - wantLat[i]); d > 1.2e-10 {
			c.Fail("vertex-lat", nil, "%s(%s): corner %d (%s) lat %v, want %v (diff %.3g)", who, s, i, names[i], p.Lat(), wantLat[i], d)
			return box{}, false
		}
		if math.Abs(p.Lat()) > math.Abs(wantLat[i])+2e-14 {
			c.Fail("vertex-lat-direction", nil, "%s(%s): corner %d lat %v is farther from zero than the real edge %v (truncation must go toward zero)", who, s, i, p.Lat(), wantLat[i])
			return box{}, false
		}
		if p.Alt() != wantAlt[i] {
			c.Fail("vertex-alt", nil, "%s(%s): corner %d (%s) alt %v, want %v", who, s, i, names[i], p.Alt(), wantAlt[i])
			return box{}, false
		}
	}
	b := box{w: pts[0].Lon(), e: pts[1].Lon(), n: pts[0].Lat(), s: pts[2].Lat(), b: pts[0].Alt(), t: pts[4].Alt()}
	// the eight corners must be consistent with one box (bitwise)
	for i, p := range pts {
		wl := []float64{b.w, b.e, b.e, b.w, b.w, b.e, b.e, b.w}[i]
		wa := []float64{b.n, b.n, b.s, b.s, b.n, b.n, b.s, b.s}[i]
		if p.Lon() != wl || p.Lat() != wa {
			c.Fail("vertex-box", nil, "%s(%s): corner %d (%v,%v) is not a corner of the box spanned by NW/SE", who, s, i, p.Lon(), p.Lat())
			return box{}, false
		}
	}
	return b, true
}

// c02Hammer: many goroutines ask for corners and centres at once (shared pool of IDs mixed with fresh ones; rows of
// one zoom, so that row-keyed state is contended), each answer judged against the closed-form geometry.
func c02Hammer(c *core.Case) {
	r := c.R
	G := []int{4, 16, 32, 64}[r.Intn(4)]
	n := 2000
	if c.Tier == "thorough" && c.I < 4 {
		G, n = []int{16, 64, 8, 32}[c.I], 1500000
	}
	h := genZoom(r)
	pool := make([]ref.ID, 2+r.Intn(63))
	for i := range pool {
		v := genZoom(r)
		pool[i] = genID(r, h, h, v, v)
	}
	fresh := []float64{0, 0.5, 1}[r.Intn(3)]
	c.KI(int64(G), int64(n), int64(len(pool)), h)
	c.KS(pool[0].Ext())
	c.NonTrivial()
	c.Desc = func() any {
		return map[string]any{"scenario": "concurrent vertex/centre queries", "goroutines": G, "calls_per_goroutine": n, "shared_pool": len(pool), "fraction_fresh_ids": fresh, "hZoom": h}
	}
	hammer(c, G, n, func(r *core.Rng, sc *core.Case) {
		id := pool[r.Intn(len(pool))]
		if r.P(fresh) {
			v := genZoom(r)
			hz := h
			if r.P(0.2) {
				hz = genZoom(r)
			}
			id = genID(r, hz, hz, v, v)
		}
		s := id.Ext()
		vs, err := shape.GetPointOnExtendedSpatialId(s, enum.Vertex)
		sc.Call()
		if err != nil {
			sc.Fail("vertex-error", nil, "GetPointOnExtendedSpatialId(%s, Vertex): %v", s, err)
			return
		}
		b, ok := c02Vertices(sc, id, s, vs, "GetPointOnExtendedSpatialId")
		if !ok || !r.P(0.3) {
			return
		}
		ct, err := shape.GetPointOnExtendedSpatialId(s, enum.Center)
		sc.Call()
		if err != nil || len(ct) != 1 {
			sc.Fail("centre-error", nil, "GetPointOnExtendedSpatialId(%s, Center): %v, %d points", s, err, len(ct))
			return
		}
		if p := ct[0]; p.Lat() > b.n || p.Lat() < b.s || p.Lon() < b.w || p.Lon() > b.e || p.Alt() < b.b || p.Alt() > b.t {
			sc.Fail("centre-outside-box", nil, "centre of %s (%v,%v,%v) lies outside its own corners", s, p.Lon(), p.Lat(), p.Alt())
		}
	})
}

func runC02(c *core.Case) {
	r := c.R
	if r.P(0.0005) || (c.Tier == "thorough" && c.I < 4) {
		c02Hammer(c)
		return
	}
	h, v := genZoom(r), genZoom(r)
	if r.P(0.15) {
		h = []int64{0, 1, 35, 34}[r.Intn(4)]
	}
	if r.P(0.3) {
		v = h
	}
	id := genID(r, h, h, v, v)
	n := pow2(h)
	if r.P(0.2) {
		id.Y = []int64{0, n - 1}[r.Intn(2)]
	}
	if r.P(0.2) {
		id.X = []int64{0, n - 1}[r.Intn(2)]
	}
	s := id.Ext()
	var obs []string
	c.Desc = func() any { return map[string]any{"id": s, "observed": obs} }
	c.KS(s)
	if h+v > 0 {
		c.NonTrivial()
	}
	if id.Y == 0 || id.Y == n-1 {
		c.Tag("first/last-row")
	}
	if id.X == 0 || id.X == n-1 {
		c.Tag("first/last-column")
	}
	if h >= 33 {
		c.Tag("h>=33")
	}
	if id.F < 0 {
		c.Tag("below-ground")
	}
	vs, err := shape.GetPointOnExtendedSpatialId(s, enum.Vertex)
	c.Call()
	if err != nil {
		c.Fail("vertex-error", nil, "GetPointOnExtendedSpatialId(%s, Vertex) returned %v", s, err)
		return
	}
	for _, p := range vs {
		if p != nil {
			obs = append(obs, fmt.Sprintf("(%.17g, %.17g, %.17g)", p.Lon(), p.Lat(), p.Alt()))
		}
	}
	bx, ok := c02Vertices(c, id, s, vs, "GetPointOnExtendedSpatialId")
	if !ok {
		return
	}
	// returned points belong to the caller: editing them must not change what the next identical query returns
	if r.P(0.15) {
		saved := make([]object.Point, len(vs))
		for i, p := range vs {
			saved[i] = *p
		}
		vs[r.Intn(8)].SetAlt(12345.5)
		vs[r.Intn(8)].SetLon(-1.25)
		vs[r.Intn(8)].SetLat(2.5)
		vs2, e := shape.GetPointOnExtendedSpatialId(s, enum.Vertex)
		c.Call()
		if e != nil || len(vs2) != 8 {
			c.Fail("vertex-error", nil, "second identical query of %s: %d points, err %v", s, len(vs2), e)
			return
		}
		for i := range vs2 {
			if *vs2[i] != saved[i] {
				c.Fail("result-aliased", nil, "GetPointOnExtendedSpatialId(%s, Vertex) asked again after the caller edited the previously returned points: corner %d is now (%v,%v,%v), was (%v,%v,%v)", s, i, vs2[i].Lon(), vs2[i].Lat(), vs2[i].Alt(), saved[i].Lon(), saved[i].Lat(), saved[i].Alt())
				return
			}
		}
		vs = vs2
		c.Tag("edited-returned-points")
	}
	// a query of a "decimal-packed sibling" right before: (zoom+1, row-10^k) packs to the same decimal key as (zoom, row)
	if pSib := map[bool]float64{true: 0.5, false: 0.03}[id.H >= 34]; r.P(pSib) {
		k := int64(1)
		for i := r.Range(9, 11); i > 0; i-- {
			k *= 10
		}
		if id.H >= 34 { // indices reach 11 decimal digits only at zooms 34 and 35
			k = 10_000_000_000
		}
		sib := ref.ID{H: id.H - 1, X: id.X >> 1, Y: id.Y + k, V: id.V, F: id.F}
		if r.Bool() {
			sib = ref.ID{H: id.H + 1, X: id.X, Y: id.Y - k, V: id.V, F: id.F}
		}
		if sib.Valid() {
			sv, se := shape.GetPointOnExtendedSpatialId(sib.Ext(), enum.Vertex)
			if se != nil {
				c.Fail("vertex-error", nil, "query of %s: %v", sib.Ext(), se)
				return
			}
			if _, ok := c02Vertices(c, sib, sib.Ext(), sv, "GetPointOnExtendedSpatialId(after "+s+")"); !ok {
				return
			}
			again, e := shape.GetPointOnExtendedSpatialId(s, enum.Vertex)
			c.Calls(2)
			if e != nil || len(again) != 8 {
				c.Fail("vertex-error", nil, "query of %s after %s: %v", s, sib.Ext(), e)
				return
			}
			for i := range again {
				if *again[i] != *vs[i] {
					c.Fail("history-dependent-geometry", nil, "GetPointOnExtendedSpatialId(%s) returns a different corner %d after a query of %s", s, i, sib.Ext())
					return
				}
			}
			c.Tag("decimal-sibling-history")
		}
	}
	// centre
	cs, err := shape.GetPointOnExtendedSpatialId(s, enum.Center)
	c.Call()
	if err != nil || len(cs) != 1 || cs[0] == nil {
		c.Fail("centre-error", nil, "GetPointOnExtendedSpatialId(%s, Center) = %d points, err %v", s, len(cs), err)
		return
	}
	ct := cs[0]
	obs = append(obs, fmt.Sprintf("centre (%.17g, %.17g, %.17g)", ct.Lon(), ct.Lat(), ct.Alt()))
	if ulps(ct.Lon(), (bx.w+bx.e)/2) > 4 && math.Abs(ct.Lon()-(bx.w+bx.e)/2) > 1e-13 {
		c.Fail("centre-lon", nil, "centre lon %v, midpoint of %v..%v is %v", ct.Lon(), bx.w, bx.e, (bx.w+bx.e)/2)
		return
	}
	if math.Abs(ct.Lat()-(bx.n+bx.s)/2) > 1.2e-10 {
		c.Fail("centre-lat", nil, "centre lat %v, midpoint of %v..%v is %v", ct.Lat(), bx.s, bx.n, (bx.n+bx.s)/2)
		return
	}
	if ct.Alt() != (bx.b+bx.t)/2 {
		c.Fail("centre-alt", nil, "centre alt %v, midpoint of %v..%v is %v", ct.Alt(), bx.b, bx.t, (bx.b+bx.t)/2)
		return
	}
	// round trip: centre -> ID at the same zooms
	back, err := shape.GetExtendedSpatialIdsOnPoints([]*object.Point{ct}, id.H, id.V)
	c.Call()
	if err != nil || len(back) != 1 || back[0] != s {
		c.Fail("centre-roundtrip", nil, "centre of %s maps back to %v (err %v)", s, back, err)
		return
	}
	// tiling: points strictly inside the box (25 % margin, far above the 1e-10 deg latitude truncation) map to this ID
	for k := 0; k < 2; k++ {
		u, w, t := r.Uniform(0.25, 0.75), r.Uniform(0.25, 0.75), r.Uniform(0.25, 0.75)
		ip, e := object.NewPoint(bx.w+u*(bx.e-bx.w), bx.s+w*(bx.n-bx.s), bx.b+t*(bx.t-bx.b))
		if e != nil {
			c.Fail("interior-point", nil, "an interior point of %s is refused by NewPoint: %v", s, e)
			return
		}
		in, e := shape.GetExtendedSpatialIdsOnPoints([]*object.Point{ip}, id.H, id.V)
		c.Call()
		if e != nil || len(in) != 1 || in[0] != s {
			c.Fail("interior-point", nil, "point (%.17g, %.17g, %.17g) lies inside %s (box lon %v..%v lat %v..%v alt %v..%v) but maps to %v (err %v)", ip.Lon(), ip.Lat(), ip.Alt(), s, bx.w, bx.e, bx.s, bx.n, bx.b, bx.t, in, e)
			return
		}
	}
	// spatial notation (h == v IDs): same geometry
	if id.H == id.V {
		sp := id.Spatial()
		vs2, e2 := shape.GetPointOnSpatialId(sp, enum.Vertex)
		cs2, e3 := shape.GetPointOnSpatialId(sp, enum.Center)
		c.Calls(2)
		if e2 != nil || e3 != nil || len(vs2) != 8 || len(cs2) != 1 {
			c.Fail("spatial-notation", nil, "GetPointOnSpatialId(%s): %d/%d points, errs %v %v", sp, len(vs2), len(cs2), e2, e3)
			return
		}
		for i := range vs2 {
			if *vs2[i] != *vs[i] {
				c.Fail("spatial-notation", nil, "GetPointOnSpatialId(%s) corner %d differs from the extended form of the same voxel", sp, i)
				return
			}
		}
		if *cs2[0] != *ct {
			c.Fail("spatial-notation", nil, "GetPointOnSpatialId(%s) centre differs from the extended form", sp)
			return
		}
		c.Tag("spatial-notation")
	}
	// shared faces with the +x, +y, +f neighbours (bitwise)
	nbx := ref.ID{H: id.H, X: (id.X + 1) % n, Y: id.Y, V: id.V, F: id.F}
	{
		vx, e := shape.GetPointOnExtendedSpatialId(nbx.Ext(), enum.Vertex)
		c.Call()
		if e != nil || len(vx) != 8 {
			c.Fail("vertex-error", nil, "neighbour %s: %v", nbx.Ext(), e)
			return
		}
		westOfNext := vx[0].Lon()
		same := bx.e == westOfNext
		if id.X == n-1 { // wrap: east edge 180 and west edge -180 are the same meridian
			same = math.Abs(bx.e) == 180 && math.Abs(westOfNext) == 180
			c.Tag("face-wrap")
		}
		if !same {
			c.Fail("shared-face-x", nil, "east edge of %s is %v but west edge of %s is %v", s, bx.e, nbx.Ext(), westOfNext)
			return
		}
	}
	if id.Y+1 < n {
		nby := ref.ID{H: id.H, X: id.X, Y: id.Y + 1, V: id.V, F: id.F}
		vy, e := shape.GetPointOnExtendedSpatialId(nby.Ext(), enum.Vertex)
		c.Call()
		if e != nil || len(vy) != 8 {
			c.Fail("vertex-error", nil, "neighbour %s: %v", nby.Ext(), e)
			return
		}
		if vy[0].Lat() != bx.s {
			c.Fail("shared-face-y", nil, "south edge of %s is %v but north edge of %s is %v", s, bx.s, nby.Ext(), vy[0].Lat())
			return
		}
	}
	if r.P(0.02) && id.H >= 9 {
		// a run of 300 consecutive rows of this column: every row's south edge is, bit for bit, the next row's north edge
		y0 := clampI(id.Y-150, 0, n-301)
		prevS := math.NaN()
		for y := y0; y <= y0+300; y++ {
			row := ref.ID{H: id.H, X: id.X, Y: y, V: id.V, F: id.F}
			vr, e := shape.GetPointOnExtendedSpatialId(row.Ext(), enum.Vertex)
			c.Call()
			if e != nil || len(vr) != 8 {
				c.Fail("vertex-error", nil, "row sweep %s: %v", row.Ext(), e)
				return
			}
			if y > y0 && vr[0].Lat() != prevS {
				c.Fail("shared-face-y", nil, "row sweep: south edge of row %d is %v but north edge of %s is %v", y-1, prevS, row.Ext(), vr[0].Lat())
				return
			}
			prevS = vr[2].Lat()
		}
		c.Tag("row-sweep-300")
	}
	nbf := ref.ID{H: id.H, X: id.X, Y: id.Y, V: id.V, F: id.F + 1}
	vf, e := shape.GetPointOnExtendedSpatialId(nbf.Ext(), enum.Vertex)
	c.Call()
	if e != nil || len(vf) != 8 {
		c.Fail("vertex-error", nil, "neighbour %s: %v", nbf.Ext(), e)
		return
	}
	if vf[0].Alt() != bx.t {
		c.Fail("shared-face-f", nil, "top of %s is %v but bottom of %s is %v", s, bx.t, nbf.Ext(), vf[0].Alt())
	}
}
