package props

import (
	"fmt"
	"sort"

	"github.com/trajectoryjp/spatial_id_go/v4/common/object"
	"github.com/trajectoryjp/spatial_id_go/v4/transform"

	"verifmon/core"
	"verifmon/ref"
)

// C11 — quadkeys are the bit-interleaving of x and y, and the key round trip is exact.
const c11Directed = 6 // exhaustive sweep of all tiles at zooms 1..6

func init() {
	core.Register(&core.Monitor{
		ID:        "C11",
		Technique: "reference-model monitor (bit interleave, dyadic zoom change) + encode/decode round-trip relation",
		Rule: "per case: a list of 1-5 valid IDs with 1 <= h <= 31 (x,y with leading zero bits, repeated and nested entries, negative f), output zooms within 3 levels finer / any coarser; " +
			"forward index form and altitudekey form judged against the reference interleave and the C03/C12 references (pairs as a set over all groups, no pair twice, groups echo the request parameters), " +
			"backward conversion at the same zooms must return the original IDs and at other zooms the C03 reference; spatial-ID variants on h==v lists. " +
			"Directed: all 5460 tiles of zooms 1..6 (keys pairwise distinct, fill [0,4^z), decode to the tile). Non-trivial = some x or y non-zero; distinct by (list, zooms).",
		Assume: []string{"reference: q = sum xbit_i<<2i | ybit_i<<(2i+1)", "C12 reference (exact rational cover) for the altitudekey form"},
		N:      func(t string) int64 { return c11Directed + tierN(100_000, 2_500_000)(t) },
		Floor:  tierN(1000, 10000),
		Run:    runC11,
		Exhaustive: func(string) []string {
			return []string{"all 5460 tiles at horizontal zooms 1..6: key bijection onto [0,4^z) and decode"}
		},
	})
}

type pairSet map[[2]int64]struct{}

func collectPairs(groups [][][2]int64) (set pairSet, dup bool) {
	set = pairSet{}
	for _, g := range groups {
		for _, p := range g {
			if _, ok := set[p]; ok {
				dup = true
			}
			set[p] = struct{}{}
		}
	}
	return
}

func diffPairs(got, want pairSet) (missing, extra [][2]int64) {
	for p := range want {
		if _, ok := got[p]; !ok && len(missing) < 3 {
			missing = append(missing, p)
		}
	}
	for p := range got {
		if _, ok := want[p]; !ok && len(extra) < 3 {
			extra = append(extra, p)
		}
	}
	return
}

func runC11Sweep(c *core.Case) {
	z := c.I + 1
	n := pow2(z)
	var ids []string
	for x := int64(0); x < n; x++ {
		for y := int64(0); y < n; y++ {
			ids = append(ids, ref.ID{H: z, X: x, Y: y, V: 3, F: -2}.Ext())
		}
	}
	c.Desc = func() any { return map[string]any{"sweep": fmt.Sprintf("all %d tiles of zoom %d", n*n, z)} }
	c.KI(z)
	c.NonTrivial()
	c.Tag("exhaustive-sweep")
	res, err := transform.ConvertExtendedSpatialIDsToQuadkeysAndVerticalIDs(ids, z, 3, 0, 0)
	c.Call()
	if err != nil {
		c.Fail("quadkey-error", nil, "forward conversion of all tiles of zoom %d returned %v", z, err)
		return
	}
	seen := map[int64]string{}
	i := 0
	for _, g := range res {
		for _, p := range g.InnerIDList() {
			if p[1] != -2 {
				c.Fail("quadkey-vertical", nil, "vertical index %d, want -2", p[1])
				return
			}
			if p[0] < 0 || p[0] >= n*n {
				c.Fail("quadkey-range", nil, "zoom %d: key %d outside [0,4^z)", z, p[0])
				return
			}
			if prev, ok := seen[p[0]]; ok {
				c.Fail("quadkey-not-injective", nil, "zoom %d: key %d produced for two tiles (%s and another)", z, p[0], prev)
				return
			}
			seen[p[0]] = ids[i%len(ids)]
			i++
		}
	}
	if int64(len(seen)) != n*n {
		c.Fail("quadkey-not-surjective", nil, "zoom %d: %d distinct keys for %d tiles", z, len(seen), n*n)
		return
	}
	// per tile: exact key and decode
	for x := int64(0); x < n; x++ {
		for y := int64(0); y < n; y++ {
			id := ref.ID{H: z, X: x, Y: y, V: 3, F: -2}
			r1, e1 := transform.ConvertExtendedSpatialIDsToQuadkeysAndVerticalIDs([]string{id.Ext()}, z, 3, 0, 0)
			c.Call()
			if e1 != nil || len(r1) != 1 || len(r1[0].InnerIDList()) != 1 {
				c.Fail("quadkey-error", nil, "forward(%s) = %v groups, err %v", id.Ext(), len(r1), e1)
				return
			}
			q := r1[0].InnerIDList()[0][0]
			if want := ref.Quadkey(x, y, z); q != want {
				c.Fail("quadkey-value", nil, "tile %d/%d/%d: key %d, bit interleave gives %d", z, x, y, q, want)
				return
			}
			back, e2 := transform.ConvertQuadkeysAndVerticalIDsToExtendedSpatialIDs([]*object.QuadkeyAndVerticalID{object.NewQuadkeyAndVerticalID(z, q, 3, -2, 0, 0)}, z, 3)
			c.Call()
			if e2 != nil || len(back) != 1 || back[0] != id.Ext() {
				c.Fail("quadkey-decode", nil, "key %d at zoom %d decodes to %v (err %v), want %s", q, z, back, e2, id.Ext())
				return
			}
		}
	}
}

func runC11(c *core.Case) {
	if c.I < c11Directed {
		runC11Sweep(c)
		return
	}
	r := c.R
	square := r.P(0.25)
	h := r.Range(1, 31)
	v := genZoom(r)
	if square {
		v = h
	}
	base := genID(r, h, h, v, v)
	if r.P(0.3) { // leading zero bits
		base.X >>= uint(r.Intn(int(h) + 1))
		base.Y >>= uint(r.Intn(int(h) + 1))
	}
	ids := []ref.ID{base}
	k := 1 + r.Intn(5)
	if r.P(0.4) {
		k = 1
	}
	sameZoom := r.P(0.5)
	for len(ids) < k {
		switch r.Intn(4) {
		case 0:
			ids = append(ids, ids[r.Intn(len(ids))])
		case 1:
			if !sameZoom && !square {
				ids = append(ids, descendant(r, base, clampI(base.H+r.Range(0, 2), 1, 31), clampI(base.V+r.Range(0, 2), 0, 35)))
				continue
			}
			fallthrough
		case 2:
			ids = append(ids, ref.Shift(base, r.Range(-1, 1), r.Range(-1, 1), r.Range(-1, 1)))
		default:
			ids = append(ids, genID(r, h, h, v, v))
		}
	}
	if r.P(0.1) { // sibling differing only in a high bit of x or y (what truncated or packed de-duplication keys confuse)
		sb := ids[r.Intn(len(ids))]
		if r.Bool() {
			sb.X = flipHigh(r, sb.X, sb.H)
		} else {
			sb.Y = flipHigh(r, sb.Y, sb.H)
		}
		ids = append(ids, sb)
		c.Tag("high-bit-sibling")
	}
	if square && r.P(0.08) {
		// single-zoom list: a voxel with f = 0 followed (or preceded) by a finer voxel just below ground inside its footprint
		P, ch := truncAliasPair(r)
		P.H = clampI(P.H, 1, 28)
		P.X, P.Y = P.X&(pow2(P.H)-1), P.Y&(pow2(P.H)-1)
		P.V = P.H
		d := r.Range(1, 3)
		ch = ref.ID{H: P.H + d, X: P.X<<uint(d) + r.I64n(pow2(d)), Y: P.Y<<uint(d) + r.I64n(pow2(d)), V: P.H + d, F: -r.Range(1, pow2(d)-1)}
		if r.Bool() {
			ids = []ref.ID{P, ch}
		} else {
			ids = []ref.ID{ch, P}
		}
		h, v = P.H, P.H
		c.Tag("f=0-then-finer-f<0-same-footprint")
	}
	radix := false
	if r.P(0.03) && !square {
		// vertical (index, zoom) pairs that a key packed as index*35+zoom (radix one too small for zooms 0..35) confuses:
		// (f, 35) and (f+1, 0) on the same tile
		f := []int64{-1, -2}[r.Intn(2)]
		t := ids[0]
		a, b := t, t
		a.V, a.F = 35, f
		b.V, b.F = 0, f+1
		if r.Bool() {
			a, b = b, a
		}
		ids = append(ids, a, b)
		radix = true
		c.Tag("radix-neighbour-vertical-pairs")
	}
	cornerShape := r.P(0.15) && !square
	if cornerShape {
		dh, dv := r.Range(0, 2), r.Range(0, 2)
		if dh == 0 && dv == 0 {
			dh = 1
		}
		base.H = clampI(base.H, 1, 31-dh)
		base.X, base.Y = base.X&(pow2(base.H)-1), base.Y&(pow2(base.H)-1)
		base.V = clampI(base.V, 0, 35-dv)
		base.F = clampI(base.F, -pow2(base.V), pow2(base.V)-1)
		ids = cornerFirst(r, base, dh, dv)
		c.Tag("corner-children-then-parent")
	}
	for i := range ids { // keep f inside the zoom's range after the shifts
		ids[i].F = clampI(ids[i].F, -pow2(ids[i].V), pow2(ids[i].V)-1)
	}
	minH, minV := int64(35), int64(35)
	for _, a := range ids {
		if a.H < minH {
			minH = a.H
		}
		if a.V < minV {
			minV = a.V
		}
	}
	H, V := h, v
	if cornerShape {
		// output zooms between the parent's and the children's (or exactly the children's)
		H, V = r.Range(ids[len(ids)-1].H, ids[0].H), r.Range(ids[len(ids)-1].V, ids[0].V)
		if r.Bool() {
			H, V = ids[0].H, ids[0].V
		}
	} else if !r.P(0.35) {
		H = clampI(minH+r.Range(-3, 3), 1, 31)
		V = clampI(minV+r.Range(-3, 3), 0, 35)
		if r.P(0.2) {
			H = r.Range(1, minH)
		}
		if square {
			V = H
		}
	}
	if radix && V > 3 { // the list holds a vertical zoom 0 voxel: keep its refinement small
		V = r.Range(0, 3)
	}
	if !square && !cornerShape && !radix && r.P(0.002) { // one ID refined into 1024 or 4096 tiles, under a hostile scheduler width
		ids = ids[:1]
		ids[0].H = clampI(ids[0].H, 1, 25)
		ids[0].X, ids[0].Y = ids[0].X&(pow2(ids[0].H)-1), ids[0].Y&(pow2(ids[0].H)-1)
		H, V = ids[0].H+r.Range(5, 6), clampI(ids[0].V+r.Range(0, 1), 0, 35)
		minH, minV = ids[0].H, ids[0].V
		c.Procs()
		c.Tag("expansion>=1024-tiles")
	}
	veryLong := !square && !cornerShape && !radix && (r.P(0.0003) || (c.Tier == "thorough" && r.P(0.0003)))
	if veryLong { // 2^15 .. 2^17 + 3 IDs at one zoom pair, converted at their own zooms; a repeated ID far from its twin
		b0 := ids[0]
		H, V = b0.H, b0.V
		n := veryLongLen(r)
		ids = ids[:1]
		for len(ids) < n {
			ids = append(ids, ref.ID{H: b0.H, X: r.I64n(pow2(b0.H)), Y: r.I64n(pow2(b0.H)), V: b0.V, F: r.Range(-pow2(b0.V), pow2(b0.V)-1)})
		}
		ids[n-3] = ids[0]
		c.Tag("very-long-list")
		c.Procs()
	}
	in := ref.Exts(ids)
	if !veryLong && r.P(0.06) { // the same voxel a second time under another parser-accepted spelling
		k := r.Intn(len(in))
		in = append(in, respell(r, in[k]))
		ids = append(ids, ids[k])
		c.Tag("respelled-twin")
	}
	inCopy := copyStrings(in)
	var obs []string
	c.Desc = func() any {
		return map[string]any{"ids": trunc(in, 40), "outputHZoom": H, "outputVZoom": V, "observed": obs}
	}
	keyStrings(c, in)
	c.KI(H, V)
	for _, a := range ids {
		if a.X != 0 || a.Y != 0 {
			c.NonTrivial()
		}
	}
	if sameZoomList(ids, H, V) {
		c.Tag("same-zoom-roundtrip")
	} else {
		c.Tag("zoom-changing")
	}

	// expected pairs (index form): quadkeys of the C03 reference horizontally, C03 reference vertically
	want := pairSet{}
	for t := range ref.Change(ids, H, V) {
		want[[2]int64{ref.Quadkey(t.X, t.Y, H), t.F}] = struct{}{}
	}
	if r.P(0.08) {
		// poison: the same conversion rejected for a malformed ID after a valid prefix taken from the judged list itself
		_, perr := transform.ConvertExtendedSpatialIDsToQuadkeysAndVerticalIDs(malformedAfter(r, in[:1+r.Intn(len(in))]), H, V, 0, 0)
		_, perr2 := transform.ConvertExtendedSpatialIDsToQuadkeysAndAltitudekeys(malformedAfter(r, in[:1]), H, clampI(minV, 0, 35), 26, 1<<25)
		c.Calls(2)
		if perr == nil || perr2 == nil {
			c.Fail("quadkey-missing-error", nil, "a list ending in a malformed ID was accepted (%v, %v)", perr, perr2)
			return
		}
		c.Tag("after-failed-call")
	}
	// index form is requested by maxHeight == minHeight, whatever the common value; the groups echo the request
	fc := []float64{0, 0, 0, 100, -12.5, 1e9}[r.Intn(6)]
	res, err := transform.ConvertExtendedSpatialIDsToQuadkeysAndVerticalIDs(in, H, V, fc, fc)
	c.Call()
	if err != nil {
		c.Fail("quadkey-error", nil, "ConvertExtendedSpatialIDsToQuadkeysAndVerticalIDs(%v,%d,%d,%v,%v) returned %v", in, H, V, fc, fc, err)
		return
	}
	var groups [][][2]int64
	for gi, g := range res {
		groups = append(groups, g.InnerIDList())
		if g.QuadkeyZoom() != H || g.VerticalZoom() != V || g.MaxHeight() != fc || g.MinHeight() != fc {
			c.Fail("quadkey-group-params", nil, "group %d reports (quadkeyZoom %d, vZoom %d, max %v, min %v), request was (%d,%d,%v,%v)", gi, g.QuadkeyZoom(), g.VerticalZoom(), g.MaxHeight(), g.MinHeight(), H, V, fc, fc)
			return
		}
		if len(g.InnerIDList()) == 0 {
			c.Fail("quadkey-empty-group", nil, "group %d is empty", gi)
			return
		}
	}
	got, dup := collectPairs(groups)
	obs = append(obs, fmt.Sprintf("index form: %d groups, %d pairs", len(res), len(got)))
	if dup {
		c.Fail("quadkey-pair-twice", nil, "a (quadkey, vertical index) pair is reported twice across the groups")
		return
	}
	if missing, extra := diffPairs(got, want); len(missing)+len(extra) > 0 {
		c.Fail("quadkey-pairs", nil, "index form (%v -> %d,%d): missing pairs %v, unexpected pairs %v", in, H, V, missing, extra)
		return
	}
	for p := range got {
		if p[0] < 0 || p[0] >= pow2(2*H) {
			c.Fail("quadkey-range", nil, "key %d outside [0,4^%d)", p[0], H)
			return
		}
	}
	if !sameStrings(in, inCopy) {
		c.Fail("input-modified", nil, "forward conversion modified its input slice")
		return
	}

	// backward: the pairs converted back at the same zooms give the (H,V) voxels; at the inputs' own zooms the original IDs
	var objs []*object.QuadkeyAndVerticalID
	keys := make([][2]int64, 0, len(got))
	for p := range got {
		keys = append(keys, p)
	}
	sort.Slice(keys, func(i, j int) bool {
		return keys[i][0] < keys[j][0] || keys[i][0] == keys[j][0] && keys[i][1] < keys[j][1]
	})
	if len(keys) > 300 {
		keys = keys[:300]
	}
	var tiles []ref.ID
	// index form means maxHeight == minHeight, whatever the common value is: elements carry 0, 100, -5 ... and some
	// (quadkey, vertical index) pairs are listed twice with different constants - still one ID each
	eqConst := func() float64 { return []float64{0, 0, 0, 100, -5, 0.5, 1e9}[r.Intn(7)] }
	for _, p := range keys {
		hc := eqConst()
		o := object.NewQuadkeyAndVerticalID(H, p[0], V, p[1], hc, hc)
		if r.P(0.25) {
			// the same element reached through the setters of an object that held another key at other zooms before
			// (setters in random order: every field is simply replaced, whatever the other fields hold at that moment)
			o = object.NewQuadkeyAndVerticalID(r.Range(1, 31), r.Range(0, 3), r.Range(0, 8), r.Range(-3, 3), 0, 0)
			set := []func(){func() { o.SetQuadkeyZoom(H) }, func() { o.SetQuadkey(p[0]) }, func() { o.SetVZoom(V) }, func() { o.SetVIndex(p[1]) },
				func() { o.SetMaxHeight(hc) }, func() { o.SetMinHeight(hc) }}
			for _, i := range r.Perm(len(set)) {
				set[i]()
			}
			if o.QuadkeyZoom() != H || o.Quadkey() != p[0] || o.VZoom() != V || o.VIndex() != p[1] || o.MaxHeight() != hc || o.MinHeight() != hc {
				c.Fail("object-setters", nil, "QuadkeyAndVerticalID set to (%d,%d,%d,%d,%v,%v) through its setters reads back (%d,%d,%d,%d,%v,%v)", H, p[0], V, p[1], hc, hc,
					o.QuadkeyZoom(), o.Quadkey(), o.VZoom(), o.VIndex(), o.MaxHeight(), o.MinHeight())
				return
			}
			c.Tag("element-built-through-setters")
		}
		objs = append(objs, o)
		x, y := ref.UnQuadkey(p[0], H)
		tiles = append(tiles, ref.ID{H: H, X: x, Y: y, V: V, F: p[1]})
	}
	if len(keys) > 0 && len(keys) < 40 && r.P(0.3) {
		for n := 1 + r.Intn(2); n > 0; n-- {
			k := r.Intn(len(keys))
			hc := eqConst() + 1
			objs = append(objs, object.NewQuadkeyAndVerticalID(H, keys[k][0], V, keys[k][1], hc, hc))
			tiles = append(tiles, tiles[k])
		}
		c.Tag("backward-twin-elements-other-height-constant")
	}
	back, err := transform.ConvertQuadkeysAndVerticalIDsToExtendedSpatialIDs(objs, H, V)
	c.Call()
	if err != nil {
		c.Fail("quadkey-error", nil, "backward conversion at the same zooms returned %v", err)
		return
	}
	bs, bdup := ref.SetOfExt(back)
	wantBack := map[string]struct{}{}
	for _, t := range tiles {
		wantBack[t.Ext()] = struct{}{}
	}
	if missing, extra, same := ref.SameSet(bs, wantBack); !same || bdup {
		c.Fail("quadkey-roundtrip", nil, "pairs converted back at zooms (%d,%d): missing %v, unexpected %v, duplicates %v", H, V, missing, extra, bdup)
		return
	}
	if sameZoomList(ids, H, V) && len(got) <= 300 {
		origin, _ := ref.SetOfExt(ref.Exts(ids)) // canonical spellings of the inputs
		if _, _, same := ref.SameSet(bs, origin); !same {
			c.Fail("quadkey-roundtrip", nil, "round trip at the IDs' own zooms returned %v, original %v", trunc(back, 10), in)
			return
		}
	}
	// backward at other zooms = C03 reference of the tiles
	H2, V2 := clampI(H+r.Range(-3, 2), 0, 35), clampI(V+r.Range(-3, 2), 0, 35)
	if len(tiles) > 40 {
		tiles, objs = tiles[:40], objs[:40]
	}
	back2, err := transform.ConvertQuadkeysAndVerticalIDsToExtendedSpatialIDs(objs, H2, V2)
	c.Call()
	if err != nil {
		c.Fail("quadkey-error", nil, "backward conversion to zooms (%d,%d) returned %v", H2, V2, err)
		return
	}
	b2, dup2 := ref.SetOfExt(back2)
	if missing, extra, same := ref.SameSet(b2, ref.ExtSet(ref.Change(tiles, H2, V2))); !same || dup2 {
		c.Fail("quadkey-backward-zoom", nil, "pairs at (%d,%d) converted to (%d,%d): missing %v, unexpected %v, duplicates %v", H, V, H2, V2, missing, extra, dup2)
		return
	}
	// backward on a list that mixes zooms per element, with the same key NUMBER at neighbouring zooms next to each other
	if r.P(0.06) {
		var mo []*object.QuadkeyAndVerticalID
		var mt []ref.ID
		mh, mv := int64(35), int64(35)
		for n := 2 + r.Intn(4); len(mt) < n; {
			var t ref.ID
			if len(mt) > 0 && r.P(0.6) {
				p := mt[len(mt)-1]
				q := ref.Quadkey(p.X, p.Y, p.H)
				hz := clampI(p.H+[]int64{-1, 1, 2, -2}[r.Intn(4)], 1, 31)
				if q >= pow2(2*hz) {
					hz = clampI(p.H+1, 1, 31)
				}
				x, y := ref.UnQuadkey(q, hz)
				t = ref.ID{H: hz, X: x, Y: y, V: p.V, F: p.F}
				if r.P(0.3) {
					t.V = clampI(p.V+r.Range(-1, 1), 0, 35)
					t.F = clampI(t.F, -pow2(t.V), pow2(t.V)-1)
				}
			} else {
				hz := r.Range(1, 31)
				vz := genZoom(r)
				t = genID(r, hz, hz, vz, vz)
				if r.Bool() { // small key numbers exist at every zoom
					t.X, t.Y = r.Range(0, 3)&(pow2(hz)-1), r.Range(0, 3)&(pow2(hz)-1)
				}
			}
			mt = append(mt, t)
			mo = append(mo, object.NewQuadkeyAndVerticalID(t.H, ref.Quadkey(t.X, t.Y, t.H), t.V, t.F, 0, 0))
			if t.H < mh {
				mh = t.H
			}
			if t.V < mv {
				mv = t.V
			}
		}
		H3, V3 := clampI(mh+r.Range(-2, 1), 0, 35), clampI(mv+r.Range(-2, 1), 0, 35)
		cost := int64(0)
		for _, t := range mt {
			dh, dv := H3-t.H, V3-t.V
			if dh < 0 {
				dh = 0
			}
			if dv < 0 {
				dv = 0
			}
			cost += pow2(2*dh + dv)
		}
		if cost <= 1<<14 {
			bm, err := transform.ConvertQuadkeysAndVerticalIDsToExtendedSpatialIDs(mo, H3, V3)
			c.Call()
			gm, dupm := ref.SetOfExt(bm)
			if missing, extra, same := ref.SameSet(gm, ref.ExtSet(ref.Change(mt, H3, V3))); err != nil || !same || dupm {
				c.Fail("quadkey-backward-mixed-zooms", nil, "tiles %v (one key object each, zooms as listed) converted to (%d,%d): err %v, missing %v, unexpected %v, duplicates %v", ref.Exts(mt), H3, V3, err, missing, extra, dupm)
				return
			}
			c.Tag("backward-mixed-zoom-list")
		}
	}
	// spatial-ID backward variant
	Z := clampI(H+r.Range(-2, 2), 0, 35)
	if Z-V <= 3 && Z-H <= 3 {
		back3, err := transform.ConvertQuadkeysAndVerticalIDsToSpatialIDs(objs, Z)
		c.Call()
		if err != nil {
			c.Fail("quadkey-error", nil, "ConvertQuadkeysAndVerticalIDsToSpatialIDs(..,%d) returned %v", Z, err)
			return
		}
		w3 := map[string]struct{}{}
		for t := range ref.Change(tiles, Z, Z) {
			w3[t.Spatial()] = struct{}{}
		}
		b3, dup3 := ref.SetOfExt(back3)
		if missing, extra, same := ref.SameSet(b3, w3); !same || dup3 {
			c.Fail("quadkey-backward-spatial", nil, "pairs at (%d,%d) converted to spatial zoom %d: missing %v, unexpected %v, duplicates %v", H, V, Z, missing, extra, dup3)
			return
		}
	}

	// spatial-ID forward variant on h == v lists
	if square && allSquare(ids) {
		sp := ref.Spatials(ids)
		res2, err := transform.ConvertSpatialIDsToQuadkeysAndVerticalIDs(sp, H, V, 0, 0)
		c.Call()
		if err != nil {
			c.Fail("quadkey-error", nil, "ConvertSpatialIDsToQuadkeysAndVerticalIDs(%v,%d,%d,0,0) returned %v", sp, H, V, err)
			return
		}
		var g2 [][][2]int64
		for _, g := range res2 {
			g2 = append(g2, g.InnerIDList())
		}
		got2, dupS := collectPairs(g2)
		if missing, extra := diffPairs(got2, want); len(missing)+len(extra) > 0 || dupS {
			c.Fail("quadkey-pairs-spatial", nil, "spatial forward form: missing %v, unexpected %v, duplicates %v", missing, extra, dupS)
			return
		}
		c.Tag("spatial-form")
	}

	// altitudekey form: horizontal part exact, vertical part between exact and metre-widened cover (C12)
	A := clampI(minV+r.Range(-3, 3), 0, 35)
	E := []int64{25, 25, 24, 26, 23, 27}[r.Intn(6)]
	O := []int64{1 << 24, 1<<24 + 1, 1 << 25, 0, 1<<24 - 3}[r.Intn(5)]
	wantEx, wantW := pairSet{}, pairSet{}
	mustErr, mayErr, tooBig := false, false, false
	for _, a := range ids {
		exLo, exHi, wLo, wHi := ref.KeyCoverOfF(a.F, a.V, A, E, O)
		lo, hi := int64(0), pow2(A)-1
		if !exLo.IsInt64() || !wHi.IsInt64() || exLo.Int64() < lo || exHi.Int64() > hi {
			mustErr = true
			continue
		}
		if wLo.Int64() < lo || wHi.Int64() > hi {
			mayErr = true
		}
		if wHi.Int64()-wLo.Int64() > 64 {
			tooBig = true
			continue
		}
		for _, t := range ref.ChangeOne(ref.ID{H: a.H, X: a.X, Y: a.Y}, H, 0) {
			q := ref.Quadkey(t.X, t.Y, H)
			for k := exLo.Int64(); k <= exHi.Int64(); k++ {
				wantEx[[2]int64{q, k}] = struct{}{}
			}
			for k := wLo.Int64(); k <= wHi.Int64(); k++ {
				wantW[[2]int64{q, k}] = struct{}{}
			}
		}
	}
	if tooBig {
		return
	}
	res3, err := transform.ConvertExtendedSpatialIDsToQuadkeysAndAltitudekeys(in, H, A, E, O)
	c.Call()
	obs = append(obs, fmt.Sprintf("altitudekey form (A=%d,E=%d,O=%d): %d groups, err %v", A, E, O, len(res3), err))
	if mustErr {
		if err == nil {
			c.Fail("altkey-missing-error", nil, "ConvertExtendedSpatialIDsToQuadkeysAndAltitudekeys(%v,%d,%d,%d,%d): an input's altitude range leaves the key range but no error was returned", in, H, A, E, O)
		}
		c.Tag("altkey-error-expected")
		return
	}
	if err != nil {
		if !mayErr {
			c.Fail("altkey-spurious-error", nil, "ConvertExtendedSpatialIDsToQuadkeysAndAltitudekeys(%v,%d,%d,%d,%d) returned %v although every range fits", in, H, A, E, O, err)
		}
		return
	}
	var g3 [][][2]int64
	for gi, g := range res3 {
		g3 = append(g3, g.InnerIDList())
		if g.QuadkeyZoom() != H || g.AltitudekeyZoom() != A || g.ZBaseExponent() != E || g.ZBaseOffset() != O {
			c.Fail("altkey-group-params", nil, "group %d reports (%d,%d,%d,%d), request was (%d,%d,%d,%d)", gi, g.QuadkeyZoom(), g.AltitudekeyZoom(), g.ZBaseExponent(), g.ZBaseOffset(), H, A, E, O)
			return
		}
	}
	got3, dup3 := collectPairs(g3)
	if dup3 {
		c.Fail("altkey-pair-twice", nil, "a (quadkey, altitudekey) pair is reported twice across the groups")
		return
	}
	if missing, _ := diffPairs(got3, wantEx); len(missing) > 0 {
		c.Fail("altkey-pairs-missing", nil, "altitudekey form: pairs %v of the exact cover are missing", missing)
		return
	}
	if _, extra := diffPairs(got3, wantW); len(extra) > 0 {
		c.Fail("altkey-pairs-extra", nil, "altitudekey form: pairs %v lie outside the metre-widened cover", extra)
		return
	}
	c.Tag("altkey-form")
}

func sameZoomList(ids []ref.ID, H, V int64) bool {
	for _, a := range ids {
		if a.H != H || a.V != V {
			return false
		}
	}
	return true
}
