package props

import (
	"math"

	"github.com/trajectoryjp/spatial_id_go/v4/operated"

	"verifmon/core"
	"verifmon/ref"
)

// C07 — shifting an ID is modular translation on the grid.
func init() {
	core.Register(&core.Monitor{
		ID:        "C07",
		Technique: "reference-model monitor (integer modular arithmetic) + algebraic laws between calls + concurrent scenarios (4-64 goroutines issuing the same judged calls at once) + hostile scheduler widths",
		Rule: "per case: a valid ID (zooms 0..35, x/y uniform or at the grid edges, f of both signs) and two shifts with |dx|,|dy| <= 4*2^h " +
			"(mixture of tiny, one-world-width, exact multiples of 2^h and uniform) and dv up to +-2^61; 5 library calls judged against " +
			"mod-2^h arithmetic and the identity/composition/inverse laws. Non-trivial = some shift component non-zero; distinct by (ID, both shifts).",
		Assume: []string{"reference: ((x+dx) mod 2^h, (y+dy) mod 2^h, f+dv) in int64", "shifts are bounded to 4 world widths because the library wraps negative indices by repeated addition"},
		N:      tierN(400_000, 12_000_000),
		Batch:  func(t string) int64 { return tierN(400_000, 12_000_000)(t)/16 + 1 },
		Floor:  tierN(1000, 10000),
		Run:    runC07,
	})
}

func genShiftH(r *core.Rng, h int64) int64 {
	n := pow2(h)
	switch r.Intn(8) {
	case 0:
		return r.Range(-3, 3)
	case 1:
		return n * r.Range(-4, 4) // exact multiples of the world width
	case 2:
		return n*r.Range(-3, 3) + r.Range(-2, 2)
	case 3:
		return []int64{-n, n, -n + 1, n - 1, -1, 1, 0}[r.Intn(7)]
	}
	return r.Range(-4*n, 4*n)
}

func genShiftV(r *core.Rng) int64 {
	switch r.Intn(6) {
	case 0:
		return r.Range(-3, 3)
	case 1:
		return r.Range(-(1 << 61), 1<<61)
	case 2:
		return r.Range(-(1 << 39), 1<<39)
	}
	return r.Range(-1000, 1000)
}

func runC07(c *core.Case) {
	r := c.R
	if r.P(0.01) { // consecutive calls on two IDs that collide under a common 32-bit string hash
		pairs := hashCollisionPairs()
		if len(pairs) > 0 {
			p := pairs[r.Intn(len(pairs))]
			if r.Bool() {
				p[0], p[1] = p[1], p[0]
			}
			dx, dy, dv := r.Range(-2, 2), r.Range(-2, 2), r.Range(-2, 2)
			c.Tag("hash-colliding-consecutive-ids")
			c.NonTrivial()
			c.KS(p[0], p[1])
			c.KI(dx, dy, dv)
			var got [2]string
			c.Desc = func() any { return map[string]any{"consecutive_ids": p, "shift": []int64{dx, dy, dv}, "results": got} }
			for k := 0; k < 2; k++ {
				id, _ := ref.ParseExt(p[k])
				got[k] = operated.GetShiftingSpatialID(p[k], dx, dy, dv)
				c.Call()
				if want := ref.Shift(id, dx, dy, dv).Ext(); got[k] != want {
					c.Fail("shift-value-after-colliding-id", nil, "GetShiftingSpatialID(%s,%d,%d,%d) called right after the same shift of %s = %q, modular translation gives %q", p[k], dx, dy, dv, p[1-k], got[k], want)
					return
				}
			}
			return
		}
	}
	if r.P(0.0005) || (c.Tier == "thorough" && c.I < 4) {
		c07Hammer(c)
		return
	}
	id := genID(r, 0, 35, 0, 35)
	if r.P(0.05) {
		// f beyond the zoom's nominal range: the shift is unbounded vertically, such IDs are results of earlier shifts
		id.F = r.Range(-(1 << 40), 1<<40)
	}
	dx1, dy1, dv1 := genShiftH(r, id.H), genShiftH(r, id.H), genShiftV(r)
	dx2, dy2, dv2 := genShiftH(r, id.H), genShiftH(r, id.H), genShiftV(r)
	n := pow2(id.H)
	// keep the sum inside the 4-world-width bound of the quantifier
	if dx1+dx2 > 4*n || dx1+dx2 < -4*n {
		dx2 = -dx2
	}
	if dy1+dy2 > 4*n || dy1+dy2 < -4*n {
		dy2 = -dy2
	}
	if r.P(0.06) {
		// decimal digit-length boundaries of the resulting vertical index (10^k-2 .. 10^k+2, k up to 18): a formatter that
		// sizes its buffer from the magnitude goes wrong exactly there
		target := decimalEdge(r, 1, 18)
		if r.Bool() {
			target = -target
		}
		dv1 = target - id.F
		if r.Bool() { // reach the boundary with the second shift instead
			dv1, dv2 = r.Range(-1000, 1000), 0
			dv2 = target - id.F - dv1
		}
		c.Tag("decimal-boundary-f")
	}
	if r.P(0.04) {
		// the shifted vertical index lands on or next to an end of int64 (the statement: "any vertical shift that keeps
		// the index within 64 bits"); the second shift moves away from the end so that the sum stays in range
		k := r.Range(0, 2000)
		if r.Bool() {
			k = r.Range(0, 3)
		}
		if r.Bool() {
			dv1 = math.MaxInt64 - k - id.F
			dv2 = -r.Range(0, 1000)
		} else {
			dv1 = math.MinInt64 + k - id.F
			dv2 = r.Range(0, 1000)
		}
		if dv1 == math.MinInt64 { // -dv1 does not exist
			dv1++
		}
		c.Tag("result-at-int64-limit")
	}
	s := id.Ext()
	var got1, got12, gotSum, gotBack, gotZero string
	c.Desc = func() any {
		return map[string]any{"id": s, "shift1": []int64{dx1, dy1, dv1}, "shift2": []int64{dx2, dy2, dv2},
			"shift(id,a)": got1, "shift(shift(id,a),b)": got12, "shift(id,a+b)": gotSum, "shift(shift(id,a),-a)": gotBack, "shift(id,0)": gotZero,
			"expected shift(id,a)": ref.Shift(id, dx1, dy1, dv1).Ext()}
	}
	c.KS(s)
	c.KI(dx1, dy1, dv1, dx2, dy2, dv2)
	if dx1 != 0 || dy1 != 0 || dv1 != 0 {
		c.NonTrivial()
	}
	if dx1 < 0 || dy1 < 0 {
		c.Tag("negative-shift")
	}
	if id.X+dx1 >= n || id.X+dx1 < 0 || id.Y+dy1 >= n || id.Y+dy1 < 0 {
		c.Tag("wraps")
	}
	if id.H >= 32 {
		c.Tag("h>=32")
	}

	if r.P(0.02) { // non-canonical numerals in the input: the result is still the canonical ID of the shifted voxel
		rs := respell(r, s)
		if g := operated.GetShiftingSpatialID(rs, dx1, dy1, dv1); g != ref.Shift(id, dx1, dy1, dv1).Ext() {
			c.Fail("shift-value-respelled", nil, "GetShiftingSpatialID(%q,%d,%d,%d) = %q, want %q", rs, dx1, dy1, dv1, g, ref.Shift(id, dx1, dy1, dv1).Ext())
			return
		}
		c.Call()
		c.Tag("respelled-numerals")
	}
	got1 = operated.GetShiftingSpatialID(s, dx1, dy1, dv1)
	c.Call()
	want1 := ref.Shift(id, dx1, dy1, dv1)
	if got1 != want1.Ext() {
		c.Fail("shift-value", nil, "GetShiftingSpatialID(%s,%d,%d,%d) = %q, modular translation gives %q", s, dx1, dy1, dv1, got1, want1.Ext())
		return
	}
	got12 = operated.GetShiftingSpatialID(got1, dx2, dy2, dv2)
	gotSum = operated.GetShiftingSpatialID(s, dx1+dx2, dy1+dy2, dv1+dv2)
	c.Calls(2)
	if got12 != gotSum {
		c.Fail("shift-compose", nil, "shift(shift(id,a),b) = %q but shift(id,a+b) = %q", got12, gotSum)
		return
	}
	if want := ref.Shift(id, dx1+dx2, dy1+dy2, dv1+dv2).Ext(); gotSum != want {
		c.Fail("shift-value", nil, "GetShiftingSpatialID(%s,%d,%d,%d) = %q, modular translation gives %q", s, dx1+dx2, dy1+dy2, dv1+dv2, gotSum, want)
		return
	}
	gotBack = operated.GetShiftingSpatialID(got1, -dx1, -dy1, -dv1)
	c.Call()
	if gotBack != s {
		c.Fail("shift-inverse", nil, "shift(shift(id,a),-a) = %q, not the original %q", gotBack, s)
		return
	}
	gotZero = operated.GetShiftingSpatialID(s, 0, 0, 0)
	c.Call()
	if gotZero != s {
		c.Fail("shift-identity", nil, "shift(id,0,0,0) = %q, not %q", gotZero, s)
	}
}

// c07Hammer: many goroutines shift IDs at once - a small pool of IDs that all goroutines share (few keys, many threads)
// mixed with fresh IDs (every call a new key) - each result judged against modular translation.
func c07Hammer(c *core.Case) {
	r := c.R
	G := []int{4, 16, 32, 64}[r.Intn(4)]
	n := 3000
	if c.Tier == "thorough" && c.I < 4 {
		G, n = []int{16, 64, 8, 32}[c.I], 400000
	}
	pool := make([]ref.ID, 2+r.Intn(63))
	for i := range pool {
		pool[i] = genID(r, 0, 35, 0, 35)
	}
	fresh := []float64{0, 0.5, 1}[r.Intn(3)]
	c.KI(int64(G), int64(n), int64(len(pool)))
	c.KS(pool[0].Ext())
	c.NonTrivial()
	c.Desc = func() any {
		return map[string]any{"scenario": "concurrent shifts", "goroutines": G, "calls_per_goroutine": n, "shared_pool": len(pool), "fraction_fresh_ids": fresh}
	}
	hammer(c, G, n, func(r *core.Rng, sc *core.Case) {
		id := pool[r.Intn(len(pool))]
		if r.P(fresh) {
			id = genID(r, 0, 35, 0, 35)
		}
		dx, dy, dv := genShiftH(r, id.H), genShiftH(r, id.H), genShiftV(r)
		s := id.Ext()
		got := operated.GetShiftingSpatialID(s, dx, dy, dv)
		sc.Call()
		if want := ref.Shift(id, dx, dy, dv).Ext(); got != want {
			sc.Fail("shift-value", nil, "GetShiftingSpatialID(%s,%d,%d,%d) = %q, modular translation gives %q", s, dx, dy, dv, got, want)
		}
	})
}
