package props

import (
	"fmt"
	"math"
	"math/big"
	"sort"

	"github.com/trajectoryjp/spatial_id_go/v4/common/object"
	"github.com/trajectoryjp/spatial_id_go/v4/transform"

	"verifmon/core"
	"verifmon/ref"
)

// C17 — binary-subdivision altitude IDs cover the voxel and stay inside the height range.
func init() {
	core.Register(&core.Monitor{
		ID:        "C17",
		Technique: "reference-model monitor (exact big.Rat subdivision cell with boundary band): contiguity, clamping, coverage in both directions",
		Rule: "per case: a height range (symmetric/asymmetric, dyadic/non-dyadic, spans 1e-3 .. 2^26 m), an output zoom 0..35 (run length capped at 2000 cells) and a voxel placed inside, straddling either end of, or entirely outside the range; " +
			"forward (extended and spatial form): vertical IDs of all pairs form exactly the integer run [cell(bottom), cell(top)] inside [0,2^zoom), at a cell boundary within 1e-12 of the span either neighbour is accepted (no tolerance when the span is a power of two and all borders are exactly representable); " +
			"backward: the f-set is a contiguous run containing [floor(lo/res), ceil(hi/res)-1] and contained in [floor(lo/res), floor(hi/res)] for the cell's interval [lo,hi]; max < min is an error in both directions. " +
			"Non-trivial = always; distinct by (range, zooms, voxel/cell).",
		Assume: []string{"reference cell = clamp(floor((a-min)*2^z/(max-min)), 0, 2^z-1) in exact rationals; band 1e-12*(max-min) for the library's repeated float halving"},
		N:      tierN(120_000, 4_000_000),
		Floor:  tierN(1000, 10000),
		Run:    runC17,
	})
}

// cellOf returns the admissible subdivision cells of altitude a (lo==hi unless a is within the band of a boundary).
func cellOf(a, min, max float64, z int64) (lo, hi int64) {
	span := new(big.Rat).Sub(new(big.Rat).SetFloat64(max), new(big.Rat).SetFloat64(min))
	pos := new(big.Rat).Sub(new(big.Rat).SetFloat64(a), new(big.Rat).SetFloat64(min))
	pos.Mul(pos, new(big.Rat).SetInt(new(big.Int).Lsh(big.NewInt(1), uint(z))))
	pos.Quo(pos, span)
	band := new(big.Rat).SetFloat64(math.Ldexp(1e-12, int(z)))
	// exact regime: a power-of-two span whose subdivision borders (multiples of span/2^z, offset by min) are all exactly
	// representable - every halving and comparison of the library is then exact, so the cell is decided without a band
	if fr, k := math.Frexp(max - min); fr == 0.5 && !math.IsInf(max-min, 0) {
		unit := math.Ldexp(1, k-1-int(z)) // span / 2^z
		big1 := math.Max(math.Abs(min), math.Abs(max))
		if q := min / unit; q == math.Trunc(q) && big1/unit < 1<<52 && max-min == math.Ldexp(1, k-1) && min+(max-min) == max {
			band = new(big.Rat)
		}
	}
	top := pow2(z) - 1
	cl := func(x *big.Int) int64 {
		if x.Sign() < 0 {
			return 0
		}
		if !x.IsInt64() || x.Int64() > top {
			return top
		}
		return x.Int64()
	}
	return cl(ref.FloorRat(new(big.Rat).Sub(pos, band))), cl(ref.FloorRat(new(big.Rat).Add(pos, band)))
}

func runC17(c *core.Case) {
	r := c.R
	var min, span float64
	switch r.Intn(7) {
	case 0:
		min, span = -256, 512
	case 6: // ranges wider than the 2^26 m of the voxel domain, or reaching beyond it on one side
		switch r.Intn(3) {
		case 0:
			min = -pow2f(r.Range(25, 31))
			span = -2 * min
		case 1:
			min, span = 0, pow2f(r.Range(26, 33))
		default:
			span = math.Pow(10, r.Uniform(7.8, 10))
			min = -span * r.Uniform(0, 1)
		}
	case 1:
		min, span = -pow2f(r.Range(0, 24)), 0
		span = -2 * min
	case 2:
		min, span = r.Uniform(-1000, 1000), math.Pow(10, r.Uniform(-3, 7))
	case 3:
		min, span = float64(r.Range(-500, 500)), float64(r.Range(1, 3000))
	case 4:
		min, span = 0, pow2f(r.Range(0, 26))
	default:
		min, span = r.Uniform(-1e6, 1e6), r.Uniform(1, 5e4)
	}
	max := min + span
	if !(max > min) {
		max = min + 1
		span = 1
	}
	span = max - min
	c.KF(min, max)
	var obs []string
	if r.P(0.04) { // max < min is an error in both directions
		id := genID(r, 1, 31, 0, 35)
		zf, zb, zo := genZoom(r), genZoom(r), genZoom(r) // every output / bit zoom incl. 0 and 35
		if r.P(0.4) {                                    // inverted by the smallest possible amount: one ulp, or 1e-12 .. 1e-9 m
			if r.Bool() {
				max = math.Nextafter(min, math.Inf(1))
			} else {
				max = min + math.Pow(10, -r.Uniform(9, 12))
				if !(max > min) {
					max = math.Nextafter(min, math.Inf(1))
				}
			}
			c.Tag("max<min-by-a-hair")
		}
		res, e1 := transform.ConvertExtendedSpatialIDsToQuadkeysAndVerticalIDs([]string{id.Ext()}, id.H, zf, min, max)
		back, e2 := transform.ConvertQuadkeysAndVerticalIDsToExtendedSpatialIDs([]*object.QuadkeyAndVerticalID{object.NewQuadkeyAndVerticalID(6, 2914, zb, 0, min, max)}, 6, zo)
		if e1 == nil && id.H == id.V { // spatial entry point of the same conversion
			_, e1 = transform.ConvertSpatialIDsToQuadkeysAndVerticalIDs([]string{id.Spatial()}, id.H, zf, min, max)
		}
		c.Calls(2)
		c.KI(zf, zb, zo)
		c.Tag("max<min")
		c.NonTrivial()
		c.KS(id.Ext())
		c.Desc = func() any { return map[string]any{"maxHeight": min, "minHeight": max, "id": id.Ext()} }
		if e1 == nil || e2 == nil || len(back) != 0 {
			c.Fail("bit-max-lt-min", nil, "maxHeight %v < minHeight %v: forward err %v (%d groups), backward err %v (%d IDs)", min, max, e1, len(res), e2, len(back))
		}
		return
	}
	forward := r.Bool()
	c.NonTrivial()
	if forward {
		// voxel near the range
		v := genZoom(r)
		res := math.Ldexp(1, int(25-v))
		a0 := min + r.Uniform(-0.5, 1.5)*span
		if r.P(0.2) {
			a0 = []float64{min, max, min - res/2, max + res/2, min + span/2}[r.Intn(5)]
		}
		f := int64(math.Floor(a0 / res))
		f = clampI(f, -pow2(v), pow2(v)-1)
		Z := genZoom(r)
		for Z > 0 && res*math.Ldexp(1, int(Z))/span > 2000 {
			Z--
		}
		h := r.Range(1, 31)
		id := ref.ID{H: h, X: edgeIndex(r, pow2(h)), Y: edgeIndex(r, pow2(h)), V: v, F: f}
		H := clampI(h+r.Range(-2, 1), 1, 31)
		s := id.Ext()
		bottom, top := float64(f)*res, float64(f+1)*res
		b0, b1 := cellOf(bottom, min, max, Z)
		t0, t1 := cellOf(top, min, max, Z)
		c.Desc = func() any {
			return map[string]any{"direction": "voxel -> bit IDs", "id": s, "outputHZoom": H, "outputVZoom": Z, "maxHeight": max, "minHeight": min,
				"voxel_altitudes": []float64{bottom, top}, "admissible_bottom_cell": []int64{b0, b1}, "admissible_top_cell": []int64{t0, t1}, "observed": obs}
		}
		c.KS(s)
		c.KI(H, Z)
		switch {
		case top <= min || bottom >= max:
			c.Tag("voxel-outside-range")
		case bottom < min || top > max:
			c.Tag("voxel-straddles-end")
		default:
			c.Tag("voxel-inside-range")
		}
		check := func(name string, groups []*object.FromExtendedSpatialIDToQuadkeyAndVerticalID, err error) bool {
			c.Call()
			if err != nil {
				c.Fail("bit-forward-error", nil, "%s returned %v for a valid voxel and range", name, err)
				return false
			}
			vset := map[int64]bool{}
			quads := map[int64]bool{}
			for _, g := range groups {
				if g.QuadkeyZoom() != H || g.VerticalZoom() != Z || g.MaxHeight() != max || g.MinHeight() != min {
					c.Fail("bit-group-params", nil, "%s: group reports (%d,%d,%v,%v), request (%d,%d,%v,%v)", name, g.QuadkeyZoom(), g.VerticalZoom(), g.MaxHeight(), g.MinHeight(), H, Z, max, min)
					return false
				}
				for _, p := range g.InnerIDList() {
					quads[p[0]] = true
					vset[p[1]] = true
				}
			}
			var vs []int64
			for k := range vset {
				vs = append(vs, k)
			}
			sort.Slice(vs, func(i, j int) bool { return vs[i] < vs[j] })
			obs = append(obs, fmt.Sprintf("%s: vertical IDs %v", name, truncI(vs, 12)))
			if len(vs) == 0 {
				c.Fail("bit-forward-empty", nil, "%s returned no vertical ID", name)
				return false
			}
			for i, k := range vs {
				if k < 0 || k >= pow2(Z) {
					c.Fail("bit-out-of-range", nil, "%s: vertical ID %d outside [0,2^%d)", name, k, Z)
					return false
				}
				if i > 0 && k != vs[i-1]+1 {
					c.Fail("bit-not-contiguous", nil, "%s: vertical IDs %v are not a contiguous run", name, truncI(vs, 12))
					return false
				}
			}
			lo, hi := vs[0], vs[len(vs)-1]
			if (lo != b0 && lo != b1) || (hi != t0 && hi != t1) {
				c.Fail("bit-forward-run", nil, "%s(%s, zoom %d, range [%v,%v)): run %d..%d, want cell(bottom %v) = %d..%d to cell(top %v) = %d..%d", name, s, Z, min, max, lo, hi, bottom, b0, b1, top, t0, t1)
				return false
			}
			// every pair (quadkey x vertical) present: groups carry the full cross product
			want := ref.Change([]ref.ID{{H: id.H, X: id.X, Y: id.Y}}, H, 0)
			if len(quads) != len(want) {
				c.Fail("bit-forward-quadkeys", nil, "%s: %d quadkeys, want %d", name, len(quads), len(want))
				return false
			}
			for t := range want {
				if !quads[ref.Quadkey(t.X, t.Y, H)] {
					c.Fail("bit-forward-quadkeys", nil, "%s: quadkey of tile %d/%d/%d missing", name, H, t.X, t.Y)
					return false
				}
			}
			return true
		}
		if r.P(0.08) { // poison: the same request rejected for a malformed ID after this very voxel was processed
			_, perr := transform.ConvertExtendedSpatialIDsToQuadkeysAndVerticalIDs(malformedAfter(r, []string{s}), H, Z, max, min)
			c.Call()
			if perr == nil {
				c.Fail("bit-missing-error", nil, "a list ending in a malformed ID was accepted")
				return
			}
			c.Tag("after-failed-call")
		}
		g1, e1 := transform.ConvertExtendedSpatialIDsToQuadkeysAndVerticalIDs([]string{s}, H, Z, max, min)
		if !check("ConvertExtendedSpatialIDsToQuadkeysAndVerticalIDs", g1, e1) {
			return
		}
		if b0 != b1 || t0 != t1 {
			c.Tag("in-band")
		}
		if id.H == id.V && id.H >= 1 {
			g2, e2 := transform.ConvertSpatialIDsToQuadkeysAndVerticalIDs([]string{id.Spatial()}, H, Z, max, min)
			if !check("ConvertSpatialIDsToQuadkeysAndVerticalIDs", g2, e2) {
				return
			}
			c.Tag("spatial-form")
		}
		return
	}
	// backward: bit IDs -> vertical indices. One to three objects with different tiles; a second object may share
	// (bit zoom, bit index) with the first while having another height range (results must not leak between them).
	V := genZoom(r)
	type bobj struct {
		qz, q, zb, k   int64
		min, max       float64
		mustLo, mustHi int64
		mayLo, mayHi   int64
		loF, hiF       float64
		x, y           int64
	}
	mk := func(qz, q, zb, k int64, min, max float64) (bobj, bool) {
		o := bobj{qz: qz, q: q, zb: zb, k: k, min: min, max: max}
		span := max - min
		res := math.Ldexp(1, int(25-V))
		rmin, rspan := new(big.Rat).SetFloat64(min), new(big.Rat).Sub(new(big.Rat).SetFloat64(max), new(big.Rat).SetFloat64(min))
		cw := new(big.Rat).Quo(rspan, new(big.Rat).SetInt(new(big.Int).Lsh(big.NewInt(1), uint(zb))))
		lo := new(big.Rat).Add(rmin, new(big.Rat).Mul(cw, big.NewRat(k, 1)))
		hi := new(big.Rat).Add(rmin, new(big.Rat).Mul(cw, big.NewRat(k+1, 1)))
		rres := new(big.Rat).SetFloat64(res)
		band := new(big.Rat).SetFloat64(1e-12 * span / res)
		loIdx, hiIdx := new(big.Rat).Quo(lo, rres), new(big.Rat).Quo(hi, rres)
		fl := func(x *big.Rat) int64 { return ref.FloorRat(x).Int64() }
		ce := func(x *big.Rat) int64 { return ref.CeilRat(x).Int64() }
		o.mustLo, o.mustHi = fl(new(big.Rat).Add(loIdx, band)), ce(new(big.Rat).Sub(hiIdx, band))-1
		o.mayLo, o.mayHi = fl(new(big.Rat).Sub(loIdx, band)), fl(new(big.Rat).Add(hiIdx, band))
		o.loF, _ = lo.Float64()
		o.hiF, _ = hi.Float64()
		o.x, o.y = ref.UnQuadkey(q, qz)
		return o, math.Abs(o.loF) <= 1<<25 && math.Abs(o.hiF) <= 1<<25 && o.mayHi-o.mayLo <= 2100
	}
	Zb := genZoom(r)
	cellH := span / math.Ldexp(1, int(Zb))
	for V > 0 && cellH/math.Ldexp(1, int(25-V)) > 2000 {
		V--
	}
	k := edgeIndex(r, pow2(Zb))
	qz := r.Range(1, 20)
	q := r.I64n(pow2(2 * qz))
	var list []bobj
	first, ok := mk(qz, q, Zb, k, min, max)
	if !ok {
		c.Tag("cell-beyond-altitude-domain")
		return // outside the grid's altitude domain (or too many cells): not judged
	}
	list = append(list, first)
	for n := r.Intn(3); n > 0; n-- {
		q2 := (q + 1 + r.I64n(pow2(2*qz)-1)) % pow2(2*qz) // another tile of the same zoom
		dup := false
		for _, o := range list {
			if o.q == q2 {
				dup = true
			}
		}
		_ = dup
		if dup {
			continue
		}
		var o bobj
		var ok2 bool
		if r.P(0.25) && len(list) == 1 { // adjacent element equal in everything but minHeight (same tile, same bit ID, same maxHeight)
			min2 := min - span*[]float64{0.5, 1, 0.25, 3}[r.Intn(4)]
			o, ok2 = mk(qz, q, Zb, k, min2, max)
			if ok2 {
				list = append(list, o)
				c.Tag("backward-same-tile-other-min")
			}
			continue
		}
		if r.Bool() { // same bit zoom and index, other height range
			min2 := min + float64(r.Range(-3, 3))*span/4
			max2 := min2 + span*[]float64{0.5, 2, 1, 1.25}[r.Intn(4)]
			o, ok2 = mk(qz, q2, Zb, k, min2, max2)
			c.Tag("backward-shared-bit-index")
		} else {
			o, ok2 = mk(qz, q2, Zb, edgeIndex(r, pow2(Zb)), min, max)
		}
		if ok2 && o.max > o.min {
			list = append(list, o)
		}
	}
	var objs []*object.QuadkeyAndVerticalID
	var desc []string
	for _, o := range list {
		objs = append(objs, object.NewQuadkeyAndVerticalID(o.qz, o.q, o.zb, o.k, o.max, o.min))
		desc = append(desc, fmt.Sprintf("tile %d/%d/%d bit %d@%d range [%v,%v) cell [%v,%v] must %d..%d may %d..%d", o.qz, o.x, o.y, o.k, o.zb, o.min, o.max, o.loF, o.hiF, o.mustLo, o.mustHi, o.mayLo, o.mayHi))
		c.KI(o.qz, o.q, o.zb, o.k)
		c.KF(o.min, o.max)
	}
	c.KI(V)
	var got []string
	var err error
	c.Desc = func() any {
		return map[string]any{"direction": "bit IDs -> vertical indices", "objects": desc, "outputVZoom": V, "result": trunc(got, 16), "error": fmt.Sprint(err)}
	}
	got, err = transform.ConvertQuadkeysAndVerticalIDsToExtendedSpatialIDs(objs, qz, V)
	c.Call()
	if err != nil {
		c.Fail("bit-backward-error", nil, "backward conversion of %v returned %v", desc, err)
		return
	}
	perTile := map[[2]int64]map[int64]bool{}
	for _, s := range got {
		a, e := ref.ParseExt(s)
		if e != nil || a.H != qz || a.V != V {
			c.Fail("bit-backward-id", nil, "backward conversion returned %q, want IDs at zooms (%d,%d)", s, qz, V)
			return
		}
		t := [2]int64{a.X, a.Y}
		if perTile[t] == nil {
			perTile[t] = map[int64]bool{}
		}
		if perTile[t][a.F] {
			c.Fail("bit-backward-duplicates", nil, "backward conversion returned %s twice", s)
			return
		}
		perTile[t][a.F] = true
	}
	type tk [2]int64
	must := map[tk][][2]int64{}
	may := map[tk][][2]int64{}
	for _, o := range list {
		t := tk{o.x, o.y}
		must[t] = append(must[t], [2]int64{o.mustLo, o.mustHi})
		may[t] = append(may[t], [2]int64{o.mayLo, o.mayHi})
	}
	if len(perTile) != len(must) {
		c.Fail("bit-backward-id", nil, "backward conversion returned %d tiles for %d distinct tiles", len(perTile), len(must))
		return
	}
	for t, musts := range must {
		fset := perTile[t]
		if len(fset) == 0 {
			c.Fail("bit-backward-empty", nil, "no vertical index returned for tile %d/%d/%d", qz, t[0], t[1])
			return
		}
		for _, m := range musts {
			for f := m[0]; f <= m[1]; f++ {
				if !fset[f] {
					c.Fail("bit-backward-lost", nil, "tile %d/%d/%d at vZoom %d: vertical index %d of a cell's covering run %d..%d is missing (objects: %v)", qz, t[0], t[1], V, f, m[0], m[1], desc)
					return
				}
			}
		}
		for f := range fset {
			in := false
			for _, m := range may[t] {
				if f >= m[0] && f <= m[1] {
					in = true
				}
			}
			if !in {
				c.Fail("bit-backward-excess", nil, "tile %d/%d/%d at vZoom %d: vertical index %d lies outside every cell's admissible run %v (objects: %v)", qz, t[0], t[1], V, f, may[t], desc)
				return
			}
		}
		if len(musts) == 1 { // a single cell: the run must be contiguous
			var fs []int64
			for f := range fset {
				fs = append(fs, f)
			}
			sort.Slice(fs, func(i, j int) bool { return fs[i] < fs[j] })
			for i := 1; i < len(fs); i++ {
				if fs[i] != fs[i-1]+1 {
					c.Fail("bit-backward-not-contiguous", nil, "tile %d/%d/%d: vertical indices %v are not a contiguous run", qz, t[0], t[1], truncI(fs, 12))
					return
				}
			}
		}
	}
	c.Tag("backward")
	if len(list) > 1 {
		c.Tag("backward-multi-object")
	}
}

func pow2f(n int64) float64 { return math.Ldexp(1, int(n)) }

func truncI(l []int64, n int) []int64 {
	if len(l) > n {
		return append(append([]int64{}, l[:n/2]...), l[len(l)-n/2:]...)
	}
	return l
}
