package props

import (
	"github.com/trajectoryjp/spatial_id_go/v4/common/object"
	"github.com/trajectoryjp/spatial_id_go/v4/detector"
	"github.com/trajectoryjp/spatial_id_go/v4/integrate"
	"github.com/trajectoryjp/spatial_id_go/v4/operated"
	"github.com/trajectoryjp/spatial_id_go/v4/shape"
	"github.com/trajectoryjp/spatial_id_go/v4/transform"

	"verifmon/core"
	"verifmon/ref"
)

// Concurrent scenarios of the single-call monitors (see hammer in gen.go): the same calls and the same sequential
// reference models, issued by many goroutines at once on a shared pool of arguments (few keys, many threads) mixed with
// fresh arguments (every call a new key). A sequentially correct library whose answers are wrong only while other calls
// are in flight - lock-free caches built from atomics, shared scratch buffers - is silent under the race detector and
// under every single-goroutine workload; these scenarios are where such a change becomes observable.

// hammerSize draws goroutine count and calls per goroutine; the first heavy cases of the thorough tier are directed.
func hammerSize(c *core.Case, quickN, thoroughN int, first int64) (G, n int) {
	G = []int{4, 16, 32, 64}[c.R.Intn(4)]
	n = quickN
	if c.Tier == "thorough" && c.I >= first && c.I < first+4 {
		G, n = []int{16, 64, 8, 32}[c.I-first], thoroughN
	}
	return
}

func hammerWanted(c *core.Case, first int64) bool {
	return (c.Tier == "thorough" && c.I >= first && c.I < first+4) || c.R.P(0.0005)
}

func hammerDesc(c *core.Case, what string, G, n, pool int, fresh float64) {
	c.KI(int64(G), int64(n), int64(pool))
	c.NonTrivial()
	c.Desc = func() any {
		return map[string]any{"scenario": "concurrent " + what, "goroutines": G, "calls_per_goroutine": n, "shared_pool": pool, "fraction_fresh_arguments": fresh}
	}
}

// C01: concurrent point lookups.
func c01Hammer(c *core.Case) {
	r := c.R
	G, n := hammerSize(c, 3000, 600000, c01Directed)
	h, v := genZoom(r), genZoom(r)
	pool := make([]*object.Point, 2+r.Intn(63))
	for i := range pool {
		pool[i], _ = object.NewPoint(genLon(r, h), genLat(r, h), genAlt(r, v))
	}
	fresh := []float64{0, 0.5, 1}[r.Intn(3)]
	hammerDesc(c, "point lookups", G, n, len(pool), fresh)
	hammer(c, G, n, func(r *core.Rng, sc *core.Case) {
		hz, vz := h, v
		p := pool[r.Intn(len(pool))]
		if r.P(fresh) {
			if r.P(0.3) {
				hz, vz = genZoom(r), genZoom(r)
			}
			var err error
			p, err = object.NewPoint(genLon(r, hz), genLat(r, hz), genAlt(r, vz))
			if err != nil {
				sc.Fail("point-constructor", nil, "NewPoint: %v", err)
				return
			}
		}
		got, err := shape.GetExtendedSpatialIdsOnPoints([]*object.Point{p}, hz, vz)
		sc.Call()
		if err != nil || len(got) != 1 {
			sc.Fail("point-error", nil, "GetExtendedSpatialIdsOnPoints((%v,%v,%v),%d,%d) = %v, %v", p.Lon(), p.Lat(), p.Alt(), hz, vz, got, err)
			return
		}
		if cls, msg, _ := judgePoint(p, hz, vz, got[0]); cls != "" {
			sc.Fail(cls, nil, "%s", msg)
		}
	})
}

// C03: concurrent zoom changes of single IDs (to any coarser zoom or up to one level finer per axis).
func c03Hammer(c *core.Case, first int64) {
	r := c.R
	G, n := hammerSize(c, 2000, 400000, first)
	pool := make([]ref.ID, 2+r.Intn(63))
	for i := range pool {
		pool[i] = genID(r, 0, 35, 0, 35)
	}
	fresh := []float64{0, 0.5, 1}[r.Intn(3)]
	hammerDesc(c, "zoom changes", G, n, len(pool), fresh)
	hammer(c, G, n, func(r *core.Rng, sc *core.Case) {
		id := pool[r.Intn(len(pool))]
		if r.P(fresh) {
			id = genID(r, 0, 35, 0, 35)
		}
		H, V := r.Range(0, clampI(id.H+1, 0, 35)), r.Range(0, clampI(id.V+1, 0, 35))
		s := id.Ext()
		got, err := integrate.ChangeExtendedSpatialIdsZoom([]string{s}, H, V)
		sc.Call()
		gs, dup := ref.SetOfExt(got)
		want := map[string]struct{}{}
		for _, d := range ref.ChangeOne(id, H, V) {
			want[d.Ext()] = struct{}{}
		}
		if missing, extra, same := ref.SameSet(gs, want); err != nil || dup || !same {
			sc.Fail("change-set", nil, "ChangeExtendedSpatialIdsZoom([%s],%d,%d): err %v, duplicates %v, missing %v, unexpected %v", s, H, V, err, dup, missing, extra)
		}
	})
}

// C05: concurrent overlap checks of related pairs.
func c05Hammer(c *core.Case, first int64) {
	r := c.R
	G, n := hammerSize(c, 3000, 600000, first)
	type pair struct{ a, b ref.ID }
	pool := make([]pair, 2+r.Intn(63))
	mk := func(r *core.Rng) pair {
		a := genID(r, 0, 35, 0, 35)
		b, _ := c05Related(r, a, false)
		return pair{a, b}
	}
	for i := range pool {
		pool[i] = mk(r)
	}
	fresh := []float64{0, 0.5, 1}[r.Intn(3)]
	hammerDesc(c, "overlap checks", G, n, len(pool), fresh)
	hammer(c, G, n, func(r *core.Rng, sc *core.Case) {
		p := pool[r.Intn(len(pool))]
		if r.P(fresh) {
			p = mk(r)
		}
		if r.Bool() {
			p.a, p.b = p.b, p.a
		}
		sa, sb := p.a.Ext(), p.b.Ext()
		got, err := detector.CheckExtendedSpatialIdsOverlap(sa, sb)
		sc.Call()
		if want := ref.Overlap(p.a, p.b); err != nil || got != want {
			sc.Fail("overlap-value", nil, "CheckExtendedSpatialIdsOverlap(%s,%s) = (%v,%v), the boxes' intersection test gives %v", sa, sb, got, err, want)
		}
	})
}

// C08: concurrent neighbourhood queries.
func c08Hammer(c *core.Case, first int64) {
	r := c.R
	G, n := hammerSize(c, 1500, 300000, first)
	pool := make([]ref.ID, 2+r.Intn(63))
	for i := range pool {
		pool[i] = genID(r, 2, 35, 0, 35)
	}
	fresh := []float64{0, 0.5, 1}[r.Intn(3)]
	hammerDesc(c, "neighbourhood queries", G, n, len(pool), fresh)
	hammer(c, G, n, func(r *core.Rng, sc *core.Case) {
		id := pool[r.Intn(len(pool))]
		if r.P(fresh) {
			id = genID(r, 2, 35, 0, 35)
		}
		s := id.Ext()
		var got []string
		var offs [][3]int64
		var err error
		which := r.Intn(4)
		switch which {
		case 0:
			got, offs = operated.Get6spatialIdsAdjacentToFaces(s), stencil6()
		case 1:
			got, offs = operated.Get8spatialIdsAroundHorizontal(s), stencil8()
		case 2:
			got, offs = operated.Get26spatialIdsAroundVoxel(s), stencilBox(1, 1)
		default:
			hl, vl := r.Range(0, 2), r.Range(0, 2)
			got, err = operated.GetNspatialIdsAroundVoxcels([]string{s}, hl, vl)
			offs = stencilBox(hl, vl)
		}
		sc.Call()
		gs, _ := ref.SetOfExt(got)
		if missing, extra, same := ref.SameSet(gs, wantStencil([]ref.ID{id}, offs)); err != nil || !same {
			sc.Fail("stencil-set", nil, "neighbourhood query %d of %s: err %v, missing %v, unexpected %v", which, s, err, missing, extra)
		}
	})
}

// C10: concurrent notation conversions and expansions.
func c10Hammer(c *core.Case, first int64) {
	r := c.R
	G, n := hammerSize(c, 3000, 600000, first)
	pool := make([]ref.ID, 2+r.Intn(63))
	for i := range pool {
		z := genZoom(r)
		pool[i] = genID(r, z, z, z, z)
	}
	fresh := []float64{0, 0.5, 1}[r.Intn(3)]
	hammerDesc(c, "notation conversions", G, n, len(pool), fresh)
	hammer(c, G, n, func(r *core.Rng, sc *core.Case) {
		id := pool[r.Intn(len(pool))]
		if r.P(fresh) {
			z := genZoom(r)
			id = genID(r, z, z, z, z)
		}
		sp, ex := id.Spatial(), id.Ext()
		switch r.Intn(3) {
		case 0:
			got, err := shape.ConvertSpatialIdsToExtendedSpatialIds([]string{sp})
			sc.Call()
			if err != nil || len(got) != 1 || got[0] != ex {
				sc.Fail("notation-permutation", nil, "ConvertSpatialIdsToExtendedSpatialIds([%s]) = %v, %v, want [%s]", sp, got, err, ex)
			}
		case 1:
			got, err := shape.ConvertExtendedSpatialIdsToSpatialIds([]string{ex})
			sc.Call()
			if err != nil || len(got) != 1 || got[0] != sp {
				sc.Fail("notation-permutation", nil, "ConvertExtendedSpatialIdsToSpatialIds([%s]) = %v, %v, want [%s]", ex, got, err, sp)
			}
		default:
			e := id
			e.V = clampI(e.H+r.Range(-2, 2), 0, 35)
			e.F = clampI(e.F, -pow2(e.V), pow2(e.V)-1)
			o, err := object.NewExtendedSpatialID(e.Ext())
			if err != nil {
				sc.Fail("object-parse", nil, "NewExtendedSpatialID(%q): %v", e.Ext(), err)
				return
			}
			got := transform.ConvertExtendedSpatialIDToSpatialIDs(o)
			sc.Call()
			z := e.H
			if e.V > z {
				z = e.V
			}
			want := map[string]struct{}{}
			for _, d := range ref.ChangeOne(e, z, z) {
				want[d.Spatial()] = struct{}{}
			}
			gs, dup := ref.SetOfExt(got)
			if missing, extra, same := ref.SameSet(gs, want); !same || dup {
				sc.Fail("expansion-set", nil, "ConvertExtendedSpatialIDToSpatialIDs(%s): duplicates %v, missing %v, unexpected %v", e.Ext(), dup, missing, extra)
			}
		}
	})
}

// C12: concurrent altitude-key conversions.
func c12Hammer(c *core.Case, first int64) {
	r := c.R
	G, n := hammerSize(c, 3000, 600000, first)
	type arg struct {
		dir            int
		idx, zi, zo, E int64
		O              int64
	}
	mk := func(r *core.Rng) arg {
		a := arg{dir: r.Intn(2), zi: genZoom(r), zo: genZoom(r), E: genZoom(r), O: genOffset(r)}
		lo, hi := -pow2(a.zi), pow2(a.zi)-1
		if a.dir == 1 {
			lo = 0
		}
		a.idx = r.Range(lo, hi)
		return a
	}
	pool := make([]arg, 2+r.Intn(63))
	for i := range pool {
		pool[i] = mk(r)
	}
	fresh := []float64{0, 0.5, 1}[r.Intn(3)]
	hammerDesc(c, "altitude-key conversions", G, n, len(pool), fresh)
	hammer(c, G, n, func(r *core.Rng, sc *core.Case) {
		a := pool[r.Intn(len(pool))]
		if r.P(fresh) {
			a = mk(r)
		}
		var gmin, gmax int64
		var err error
		if a.dir == 0 {
			gmin, gmax, err = transform.ConvertZToMinMaxAltitudekey(a.idx, a.zi, a.zo, a.E, a.O)
		} else {
			gmin, gmax, err = transform.ConvertAltitudekeyToMinMaxZ(a.idx, a.zi, a.zo, a.E, a.O)
		}
		sc.Call()
		if cls, msg := judgeAlt(a.dir, a.idx, a.zi, a.zo, a.E, a.O, gmin, gmax, err); cls != "" {
			sc.Fail(cls, nil, "conversion direction %d (%d,%d,%d,%d,%d): %s", a.dir, a.idx, a.zi, a.zo, a.E, a.O, msg)
		}
	})
}
