package props

import (
	"fmt"

	"github.com/trajectoryjp/spatial_id_go/v4/common/object"
	"github.com/trajectoryjp/spatial_id_go/v4/transform"

	"verifmon/core"
	"verifmon/ref"
)

// C13 — 3D tile keys convert to IDs that cover the tile and keep its footprint.
func init() {
	core.Register(&core.Monitor{
		ID:        "C13",
		Technique: "reference-model monitor (per-tile exact/widened rational cover of C12, dyadic expansion of C10) with whole-call error semantics",
		Rule: "per case: a list of 1-6 tiles (hZoom 0..35, z derived from a random altitude inside the key scale so that most tiles fit, plus first/last key of the zoom and keys that leave the range), " +
			"tiles sharing a footprint with overlapping vertical ranges, tiles of different hZoom with equal x/y, (base exponent, base offset, output vertical zoom) as in C12; result size bounded to 5000 indices before the call. " +
			"Oracle: error and nil result iff some tile's exact cover leaves the f range (never when all metre-widened covers fit); otherwise per footprint the f-set contains the union of the exact covers and lies inside the union of the widened covers, " +
			"footprints are exactly the tiles' (hZoom,x,y), every vZoom is the requested one, no duplicates; the spatial-ID variant equals the C10 expansion of the extended result. Non-trivial = >= 1 tile converted without error; distinct by (tiles, E, O, V).",
		Assume: []string{"C12 reference (exact rational intervals)", "|hZoom - V| <= 3 for the spatial variant (expansion cost)"},
		N:      tierN(60_000, 2_000_000),
		Floor:  tierN(500, 5000),
		Run:    runC13,
	})
}

type c13Tile struct{ h, x, y, vz, z int64 }

// c13Repeated (thorough tier only, ~2^30 range steps, about a minute): the same tile, whose key covers 4096 vertical
// indices, listed 2^18 + 1 times. The de-duplicated result is the 4096 (or 4097) IDs of one tile.
func c13Repeated(c *core.Case) {
	t := c13Tile{h: 20, x: 5, y: 7, vz: 10, z: 515}
	E, O, V := int64(25), int64(1<<24), int64(22)
	n := 1<<18 + 1
	c.Tag("one-tile-listed-2^18-times")
	c.NonTrivial()
	c.KI(t.h, t.x, t.y, t.vz, t.z, int64(n))
	var got []object.ExtendedSpatialID
	var err error
	c.Desc = func() any {
		return map[string]any{"tile(h/x/y/vz/z)": "20/5/7/10/515", "listed": n, "zBaseExponent": E, "zBaseOffset": O, "outputVZoom": V, "result_len": len(got), "error": fmt.Sprint(err)}
	}
	objs := make([]*object.TileXYZ, n)
	for i := range objs {
		o, e := object.NewTileXYZ(t.h, t.x, t.y, t.vz, t.z)
		if e != nil {
			c.Fail("tile-constructor", nil, "NewTileXYZ: %v", e)
			return
		}
		objs[i] = o
	}
	exLo, exHi, wLo, wHi := ref.FCoverOfKey(t.z, t.vz, V, E, O)
	got, err = transform.ConvertTileXYZsToExtendedSpatialIDs(objs, E, O, V)
	c.Call()
	if err != nil {
		c.Fail("tile-spurious-error", nil, "one valid tile listed %d times: %v", n, err)
		return
	}
	seen := map[int64]struct{}{}
	for _, g := range got {
		if _, dup := seen[g.Z()]; dup || g.HZoom() != t.h || g.X() != t.x || g.Y() != t.y || g.VZoom() != V {
			c.Fail("tile-duplicates", nil, "one tile listed %d times: result holds %s twice or a foreign ID", n, g.ID())
			return
		}
		seen[g.Z()] = struct{}{}
		if g.Z() < wLo.Int64() || g.Z() > wHi.Int64() {
			c.Fail("tile-excess-cells", nil, "vertical index %d outside the metre-widened range", g.Z())
			return
		}
	}
	for k := exLo.Int64(); k <= exHi.Int64(); k++ {
		if _, ok := seen[k]; !ok {
			c.Fail("tile-lost-cells", nil, "vertical index %d of the covering range is missing", k)
			return
		}
	}
}

func runC13(c *core.Case) {
	r := c.R
	if c.Tier == "thorough" && c.I == 4 {
		c13Repeated(c)
		return
	}
	E := r.Range(18, 32)
	if r.P(0.3) {
		E = 25
	}
	O := genOffset(r)
	if r.P(0.5) {
		O = []int64{1 << 24, 1 << 23, 1 << 25, 0}[r.Intn(4)]
	}
	V := genZoom(r)
	n := 1 + r.Intn(6)
	veryLong := r.P(0.0003) || (c.Tier == "thorough" && r.P(0.0003))
	directed := c.I < 4 // directed: more than 2^16 tiles under scheduler widths 512, 3, 300 and 6
	if directed {
		veryLong = true
		c.ProcsN([]int{512, 3, 300, 6}[c.I])
	}
	if veryLong { // 2^15 .. 2^17 + 3 tiles (each maps to one or two vertical indices); the last few tiles are unlike the rest
		n = veryLongLen(r)
		if directed {
			n = []int{65537, 131075, 65539, 66361}[c.I]
		}
		E, O = 25, 1<<24
		V = r.Range(20, 24)
		c.Tag("very-long-list")
		c.Procs()
	}
	var tiles []c13Tile
	mk := func() c13Tile {
		h := genZoom(r)
		if r.P(0.4) {
			h = clampI(V+r.Range(-3, 3), 0, 35)
		}
		vz := genZoom(r)
		t := c13Tile{h: h, x: edgeIndex(r, pow2(h)), y: edgeIndex(r, pow2(h)), vz: vz}
		// key from an altitude inside the key scale [-O, 2^E - O) and (mostly) inside the spatial scale
		lo, hi := -O, pow2(E)-O-1
		if r.P(0.9) {
			lo, hi = clampI(lo, -(1<<25), 1<<25-1), clampI(hi, -(1<<25), 1<<25-1)
		}
		if lo > hi {
			lo, hi = hi, lo
		}
		a := r.Range(lo, hi) + O // metres above the key origin
		if E >= vz {
			t.z = a >> uint(E-vz)
		} else {
			t.z = a<<uint(vz-E) + r.I64n(pow2(vz-E))
		}
		switch r.Intn(12) {
		case 0:
			t.z = 0
		case 1:
			t.z = pow2(vz) - 1
		case 2:
			t.z = []int64{-1, pow2(vz), -5, pow2(vz) + 7}[r.Intn(4)] // key that does not exist
		}
		return t
	}
	for len(tiles) < n {
		t := mk()
		if veryLong {
			h := clampI(V+1, 0, 35)
			vz := V
			t = c13Tile{h: h, x: r.I64n(pow2(h)), y: r.I64n(pow2(h)), vz: vz, z: pow2(vz)/2 + r.Range(-1000, 1000)}
			tiles = append(tiles, t)
			continue
		}
		if len(tiles) > 0 {
			p := tiles[r.Intn(len(tiles))]
			switch r.Intn(5) {
			case 0: // same footprint, neighbouring / identical key (overlapping ranges)
				t = p
				t.z = p.z + r.Range(-1, 1)
			case 1: // same x/y numbers at another horizontal zoom
				t.h = clampI(p.h+r.Range(-1, 1), 0, 35)
				t.x, t.y = p.x&(pow2(t.h)-1), p.y&(pow2(t.h)-1)
				t.vz, t.z = p.vz, p.z
			case 2: // same footprint, other vertical zoom
				t.h, t.x, t.y = p.h, p.x, p.y
			case 3: // same key and low index bits, other multiples of 2^31 in x and y (keys that pack or pair 32-bit halves)
				if p.h >= 32 {
					t = p
					t.x = r.I64n(pow2(p.h-31))<<31 | p.x&(1<<31-1)
					t.y = r.I64n(pow2(p.h-31))<<31 | p.y&(1<<31-1)
					if r.Bool() {
						t.x, t.y = r.I64n(pow2(p.h-31))<<31, r.I64n(pow2(p.h-31))<<31
					}
				}
			}
		}
		tiles = append(tiles, t)
	}
	// bound the result size before the call (the library enumerates every index of the range): lower the
	// output zoom until the metre-widened ranges hold at most 5000 indices in total
	type cover struct{ exLo, exHi, wLo, wHi int64 }
	covers := make([]cover, len(tiles))
	var mustErr, mayErr bool
	for {
		mustErr, mayErr = false, false
		total, huge := int64(0), false
		fLo, fHi := -pow2(V), pow2(V)-1
		for i, t := range tiles {
			if t.z < 0 || t.z >= pow2(t.vz) {
				mustErr = true
				continue
			}
			exLo, exHi, wLo, wHi := ref.FCoverOfKey(t.z, t.vz, V, E, O)
			if !exLo.IsInt64() || !exHi.IsInt64() || !wLo.IsInt64() || !wHi.IsInt64() {
				huge = true
				break
			}
			cv := cover{exLo.Int64(), exHi.Int64(), wLo.Int64(), wHi.Int64()}
			covers[i] = cv
			if cv.exLo < fLo || cv.exHi > fHi {
				mustErr = true
				continue
			}
			if cv.wLo < fLo || cv.wHi > fHi {
				mayErr = true
			}
			total += cv.wHi - cv.wLo + 1
		}
		if !huge && (total <= 5000 || (veryLong && total <= 400000)) {
			break
		}
		if V == 0 {
			c.Inconclusive("cost-skipped")
			return
		}
		V--
	}
	var objs []*object.TileXYZ
	var desc []string
	for _, t := range tiles {
		o, err := object.NewTileXYZ(t.h, t.x, t.y, t.vz, t.z)
		if err != nil {
			c.Fail("tile-constructor", nil, "NewTileXYZ(%d,%d,%d,%d,%d) returned %v for zooms inside 0..35", t.h, t.x, t.y, t.vz, t.z, err)
			return
		}
		objs = append(objs, o)
		desc = append(desc, fmt.Sprintf("%d/%d/%d/%d/%d", t.h, t.x, t.y, t.vz, t.z))
		c.KI(t.h, t.x, t.y, t.vz, t.z)
	}
	c.KI(E, O, V)
	var got []object.ExtendedSpatialID
	var err error
	var obs []string
	c.Desc = func() any {
		var gs []string
		for i, g := range got {
			if i < 30 {
				gs = append(gs, g.ID())
			}
		}
		return map[string]any{"tiles(h/x/y/vz/z)": desc, "zBaseExponent": E, "zBaseOffset": O, "outputVZoom": V, "result": gs, "result_len": len(got), "error": fmt.Sprint(err), "observed": obs}
	}
	if r.P(0.15) && !mustErr { // (tiles with non-existent keys are outside the cost bound computed above)
		// object reuse: the same TileXYZ objects are first converted with other vertical zoom/key values, then set to
		// the judged values through the setters; the judged conversion must depend on the current field values only
		// (the other zoom is one level away, so the pre-conversion's ranges are at most twice as long as the judged ones)
		for i, t := range tiles {
			pvz := clampI(t.vz+[]int64{-1, 1}[r.Intn(2)], 0, 35)
			objs[i].SetVZoom(pvz)
		}
		_, _ = transform.ConvertTileXYZsToExtendedSpatialIDs(objs, E, O, V)
		c.Call()
		for i, t := range tiles {
			objs[i].SetVZoom(t.vz)
			if r.P(0.3) {
				objs[i].SetZ(t.z)
			}
		}
		c.Tag("reused-tile-objects")
	}
	got, err = transform.ConvertTileXYZsToExtendedSpatialIDs(objs, E, O, V)
	c.Call()
	for i, t := range tiles { // inputs untouched
		o := objs[i]
		if o.HZoom() != t.h || o.X() != t.x || o.Y() != t.y || o.VZoom() != t.vz || o.Z() != t.z {
			c.Fail("input-modified", nil, "tile %d was modified by the call", i)
			return
		}
	}
	if mustErr {
		c.Tag("error-expected")
		if err == nil {
			c.Fail("tile-missing-error", nil, "ConvertTileXYZsToExtendedSpatialIDs(%v,%d,%d,%d): a tile's range leaves the index range (or its key does not exist) but no error was returned", desc, E, O, V)
			return
		}
		if got != nil {
			c.Fail("tile-partial-result", nil, "error returned together with a partial result of %d IDs", len(got))
		}
		return
	}
	if err != nil {
		if !mayErr {
			c.Fail("tile-spurious-error", nil, "ConvertTileXYZsToExtendedSpatialIDs(%v,%d,%d,%d) returned %v although every tile's metre-widened range fits", desc, E, O, V, err)
		} else {
			c.Inconclusive("band")
		}
		return
	}
	c.NonTrivial()
	type foot struct{ h, x, y int64 }
	gotF := map[foot]map[int64]struct{}{}
	seen := map[object.ExtendedSpatialID]struct{}{}
	for _, g := range got {
		if _, dup := seen[g]; dup {
			c.Fail("tile-duplicates", nil, "ID %s returned twice", g.ID())
			return
		}
		seen[g] = struct{}{}
		if g.VZoom() != V {
			c.Fail("tile-vzoom", nil, "result %s does not have the requested vertical zoom %d", g.ID(), V)
			return
		}
		f := foot{g.HZoom(), g.X(), g.Y()}
		if gotF[f] == nil {
			gotF[f] = map[int64]struct{}{}
		}
		gotF[f][g.Z()] = struct{}{}
	}
	wantEx := map[foot]map[int64]struct{}{}
	wantW := map[foot]map[int64]struct{}{}
	for i, t := range tiles {
		f := foot{t.h, t.x, t.y}
		if wantEx[f] == nil {
			wantEx[f], wantW[f] = map[int64]struct{}{}, map[int64]struct{}{}
		}
		for k := covers[i].exLo; k <= covers[i].exHi; k++ {
			wantEx[f][k] = struct{}{}
		}
		for k := covers[i].wLo; k <= covers[i].wHi; k++ {
			wantW[f][k] = struct{}{}
		}
	}
	for f := range gotF {
		if _, ok := wantW[f]; !ok {
			c.Fail("tile-footprint", nil, "result contains footprint %d/%d/%d which no input tile has", f.h, f.x, f.y)
			return
		}
	}
	for f, ex := range wantEx {
		g := gotF[f]
		for k := range ex {
			if _, ok := g[k]; !ok {
				c.Fail("tile-lost-cells", nil, "footprint %d/%d/%d: vertical index %d of the covering range is missing (tile altitude not covered)", f.h, f.x, f.y, k)
				return
			}
		}
		for k := range g {
			if _, ok := wantW[f][k]; !ok {
				c.Fail("tile-excess-cells", nil, "footprint %d/%d/%d: vertical index %d lies outside every tile's metre-widened range", f.h, f.x, f.y, k)
				return
			}
		}
	}
	if len(wantEx) > 1 {
		c.Tag("several-footprints")
	}
	if len(tiles) > len(wantEx) {
		c.Tag("shared-footprint")
	}
	// spatial variant = expansion of the extended result (compared as sets)
	okCost := true
	cells := int64(0)
	for _, g := range got {
		d := g.HZoom() - V
		if d > 3 || d < -3 {
			okCost = false
		}
		cells += pow2(2 * absI(d))
	}
	if okCost && (cells <= 20000 || veryLong && cells <= 1<<21) {
		sp, err2 := transform.ConvertTileXYZsToSpatialIDs(objs, E, O, V)
		c.Call()
		if err2 != nil {
			c.Fail("tile-spatial-error", nil, "ConvertTileXYZsToSpatialIDs returned %v although the extended variant succeeded", err2)
			return
		}
		want := map[string]struct{}{}
		for _, g := range got {
			a := ref.ID{H: g.HZoom(), X: g.X(), Y: g.Y(), V: g.VZoom(), F: g.Z()}
			z := a.H
			if a.V > z {
				z = a.V
			}
			for _, d := range ref.ChangeOne(a, z, z) {
				want[d.Spatial()] = struct{}{}
			}
		}
		gs, _ := ref.SetOfExt(sp)
		if missing, extra, same := ref.SameSet(gs, want); !same {
			c.Fail("tile-spatial-set", nil, "ConvertTileXYZsToSpatialIDs: missing %v, unexpected %v", missing, extra)
			return
		}
		c.Tag("spatial-variant")
	}
}

func absI(x int64) int64 {
	if x < 0 {
		return -x
	}
	return x
}
