package props

import (
	"fmt"
	"math"
	"runtime/debug"
	"strings"
	"time"

	"github.com/trajectoryjp/spatial_id_go/v4/common/enum"
	"github.com/trajectoryjp/spatial_id_go/v4/common/object"
	"github.com/trajectoryjp/spatial_id_go/v4/detector"
	"github.com/trajectoryjp/spatial_id_go/v4/integrate"
	"github.com/trajectoryjp/spatial_id_go/v4/operated"
	"github.com/trajectoryjp/spatial_id_go/v4/shape"
	"github.com/trajectoryjp/spatial_id_go/v4/transform"

	"verifmon/core"
	"verifmon/ref"
)

// C15 — invalid input is rejected with an error, never a panic or a silent answer.
func init() {
	core.Register(&core.Monitor{
		ID:        "C15",
		Technique: "negative-input monitor with panic recovery: one corrupted argument position per call, judged against the documented refusal",
		Rule: "per case: one exported error-returning function (38 adapters over shape, integrate, operated, detector, transform, object, plus the four shift/neighbour helpers whose failure signal is the empty ID), " +
			"a valid call, and exactly one corrupted position: zoom argument (-1, 36, 37, 0/32 for quadkeys, +-2^31, +-2^62, MinInt64), malformed ID string (wrong arity, empty string/field, leading/trailing '/', blanks and tabs/newlines around " +
			"a field or the whole ID, '--1', hex, float, exponent, unicode digits, 20-digit overflow, NUL, letters) alone or at a random position of an otherwise valid list, nil point, unknown option, negative radius/layers, " +
			"longitude/latitude beyond the limits by 1e-10 deg .. 1e300 and +-Inf, negative or >35 tile zooms. Oracle: no panic; non-nil error (empty ID for the shift helpers); empty list for invalid zooms; false for the overlap checks; " +
			"accepted points keep lon/alt bit-identical and cut the latitude toward zero by < 1e-10 deg. Non-trivial = always; distinct by (function, corrupted arguments).",
		Assume: []string{"'+5' is accepted by the library's integer parser and is not counted as malformed", "the two pure notation converters only have to refuse wrong arity (they do not interpret fields)",
			"GetNspatialIdsAroundVoxcels may signal a malformed ID either by an error or by returning only empty IDs (the shift helpers' documented failure signal)",
			"latitudes in (85.0511287798, 85.0511287799) are truncated before the range test, as documented, and are not used as out-of-range inputs"},
		N:     tierN(250_000, 8_000_000),
		Floor: tierN(1000, 10000),
		Run:   runC15,
	})
}

// malformed ID generation ------------------------------------------------------------------------------

func badField(r *core.Rng) (string, string) {
	switch r.Intn(14) {
	case 0:
		return "", "empty-field"
	case 1:
		return " 5", "leading-blank"
	case 2:
		return "5 ", "trailing-blank"
	case 3:
		return "--1", "double-sign"
	case 4:
		return "0x1f", "hex"
	case 5:
		return "1.5", "float"
	case 6:
		return "1e3", "exponent"
	case 7:
		return "１２", "unicode-digits"
	case 8:
		return "99999999999999999999", "overflow"
	case 9:
		return "5\x00", "nul"
	case 10:
		return "b", "letter"
	case 11:
		return "\t7", "tab"
	case 12:
		return "7\n", "newline"
	}
	return "-", "lone-sign"
}

// malformID corrupts a well-formed ID (n fields). Returns the string, a kind label and whether the corruption is
// of arity (true) or of a field's integer syntax (false).
func malformID(r *core.Rng, valid string) (string, string, bool) {
	f := strings.Split(valid, "/")
	switch r.Intn(13) {
	case 0: // drop a field
		i := r.Intn(len(f))
		return strings.Join(append(append([]string{}, f[:i]...), f[i+1:]...), "/"), "arity-minus", true
	case 1: // extra field
		i := r.Intn(len(f) + 1)
		g := append(append(append([]string{}, f[:i]...), fmt.Sprint(r.Intn(9))), f[i:]...)
		return strings.Join(g, "/"), "arity-plus", true
	case 2:
		return "", "empty-string", true
	case 3:
		return "/" + valid, "leading-slash", true
	case 4:
		return valid + "/", "trailing-slash", true
	case 5: // blank/newline around the whole ID
		pad := []string{" ", "\t", "\n", "\r"}[r.Intn(4)]
		if r.Bool() {
			return pad + valid, "padded-id", false
		}
		return valid + pad, "padded-id", false
	case 6:
		return strings.Join(f[:1+r.Intn(len(f)-1)], "/"), "arity-truncated", true
	}
	i := r.Intn(len(f))
	b, kind := badField(r)
	g := append([]string{}, f...)
	g[i] = b
	return strings.Join(g, "/"), kind + fmt.Sprintf("@%d", i), false
}

func badZoom(r *core.Rng) int64 {
	return []int64{-1, 36, 37, 40, -2, 1 << 31, -(1 << 31), 1 << 62, -(1 << 62), math.MinInt64, 100, 64}[r.Intn(12)]
}

func badQuadZoom(r *core.Rng) int64 {
	return []int64{0, 32, -1, 36, 33, 1 << 31, math.MinInt64, 35}[r.Intn(8)]
}

// mixList places bad at a random position of a list with 0-3 valid entries.
func mixList(r *core.Rng, valid func() string, bad string) []string {
	n := r.Intn(4)
	l := make([]string, 0, n+1)
	pos := r.Intn(n + 1)
	for i := 0; i <= n; i++ {
		if i == pos {
			l = append(l, bad)
		} else {
			l = append(l, valid())
		}
	}
	return l
}

type c15Out struct {
	res      any
	err      error
	panicked bool
	hung     bool
	pv       any
	stack    string
}

// c15Deadline bounds one refused-input call. On the unchanged tree these calls take microseconds to milliseconds; a
// call that is still running after two minutes has not refused its input (it loops or allocates over an out-of-range
// count). The worker then stops its batch, because the abandoned call keeps a core (and possibly memory) busy.
const c15Deadline = 120 * time.Second

func c15Try(f func() (any, error)) (o c15Out) {
	done := make(chan c15Out, 1)
	go func() {
		var g c15Out
		defer func() {
			if p := recover(); p != nil {
				g.panicked, g.pv, g.stack = true, p, string(debug.Stack())
			}
			done <- g
		}()
		g.res, g.err = f()
	}()
	select {
	case o = <-done:
	case <-time.After(c15Deadline):
		o.hung = true
		core.AbortBatch()
	}
	return
}

func lenOf(res any) int {
	switch v := res.(type) {
	case []string:
		return len(v)
	case []*object.Point:
		return len(v)
	case []*object.ProjectedPoint:
		return len(v)
	case []object.ExtendedSpatialID:
		return len(v)
	case []*object.FromExtendedSpatialIDToQuadkeyAndVerticalID:
		return len(v)
	case []*object.FromExtendedSpatialIDToQuadkeyAndAltitudekey:
		return len(v)
	case nil:
		return 0
	}
	return -1
}

func runC15(c *core.Case) {
	r := c.R
	c.NonTrivial()
	// valid ingredients; zooms 31..35 so that an accepted bad zoom 36/37 would be cheap and visible
	hz, vz := r.Range(28, 35), r.Range(28, 35)
	if r.P(0.4) {
		hz, vz = genZoom(r), genZoom(r)
	}
	vext := func() string { return genID(r, hz, hz, vz, vz).Ext() }
	vsp := func() string {
		z := clampI(hz, 1, 35)
		a := genID(r, z, z, z, z)
		a.F = clampI(a.F, -pow2(z-1), pow2(z-1)-1)
		return a.Spatial()
	}
	vpoint := func() *object.Point {
		p, _ := object.NewPoint(r.Uniform(-180, 180), r.Uniform(-85, 85), r.Uniform(-1000, 1000))
		return p
	}
	var fn, what string
	var out c15Out
	expectEmptyList := false // documented: empty list on invalid zoom
	expectFalse := false     // documented: false from the overlap checks
	emptyIDSignal := false   // shift helpers: "" instead of an error
	nlayer := false
	var args string

	var prime func() // optional: the same function on the uncorrupted argument, called right before (history)
	do := func(name, argDesc string, f func() (any, error)) {
		fn, args = name, argDesc
		if prime != nil && r.P(0.5) {
			c15Try(func() (any, error) { prime(); return nil, nil })
			c.Tag("primed-with-valid-call")
		}
		out = c15Try(f)
	}

	if r.P(0.0002) || (c.Tier == "thorough" && r.P(0.0002)) {
		// a very long list (2^15 .. 2^17 + 3 IDs at one zoom) with the malformed ID among its last seven elements
		n := veryLongLen(r)
		z := r.Range(8, 30)
		l := make([]string, n)
		for i := range l {
			l[i] = ref.ID{H: z, X: r.I64n(pow2(z)), Y: r.I64n(pow2(z)), V: z, F: r.Range(-pow2(z-1), pow2(z-1)-1)}.Ext()
		}
		bad, kind, arity := malformID(r, l[0])
		pos := n - 1 - r.Intn(7)
		l[pos] = bad
		what = kind
		c.Tag("very-long-list")
		c.Procs()
		switch r.Intn(6) {
		case 0:
			do("integrate.ChangeExtendedSpatialIdsZoom", fmt.Sprintf("%d IDs, %q at %d", n, bad, pos), func() (any, error) { return integrate.ChangeExtendedSpatialIdsZoom(l, z, z) })
		case 1:
			do("integrate.MergeExtendedSpatialIds", fmt.Sprintf("%d IDs, %q at %d", n, bad, pos), func() (any, error) { return integrate.MergeExtendedSpatialIds(l, z, z) })
		case 2:
			nlayer = true
			do("operated.GetNspatialIdsAroundVoxcels", fmt.Sprintf("%d IDs, %q at %d", n, bad, pos), func() (any, error) { return operated.GetNspatialIdsAroundVoxcels(l, 1, 0) })
		case 3:
			qz := clampI(z, 1, 31)
			for i := range l {
				if i != pos {
					l[i] = ref.ID{H: qz, X: r.I64n(pow2(qz)), Y: r.I64n(pow2(qz)), V: z, F: int64(i % 7)}.Ext()
				}
			}
			do("transform.ConvertExtendedSpatialIDsToQuadkeysAndVerticalIDs", fmt.Sprintf("%d IDs, %q at %d", n, bad, pos), func() (any, error) {
				return transform.ConvertExtendedSpatialIDsToQuadkeysAndVerticalIDs(l, qz, z, 0, 0)
			})
		case 4:
			expectFalse = true
			do("detector.CheckExtendedSpatialIdsArrayOverlap", fmt.Sprintf("%d IDs, %q at %d", n, bad, pos), func() (any, error) { return detector.CheckExtendedSpatialIdsArrayOverlap(l, []string{l[1]}) })
		default:
			if !arity { // the pure converter only has to refuse wrong arity
				l[pos] = strings.Join(strings.Split(l[0], "/")[:4], "/")
				what = "arity-truncated"
			}
			do("shape.ConvertExtendedSpatialIdsToSpatialIds", fmt.Sprintf("%d IDs, %q at %d", n, l[pos], pos), func() (any, error) { return shape.ConvertExtendedSpatialIdsToSpatialIds(l) })
		}
		goto judge
	}
	switch k := r.Intn(40); k {
	// ---- shape ----
	case 0: // point lookups: bad zoom / nil point
		pts := []*object.Point{vpoint(), vpoint()}
		if r.Bool() {
			z1, z2 := badZoom(r), r.Range(0, 35)
			if r.Bool() {
				z1, z2 = z2, z1
			}
			what, expectEmptyList = "zoom", true
			if r.Bool() {
				do("shape.GetExtendedSpatialIdsOnPoints", fmt.Sprint(z1, z2), func() (any, error) { return shape.GetExtendedSpatialIdsOnPoints(pts, z1, z2) })
			} else {
				do("shape.GetSpatialIdsOnPoints", fmt.Sprint(z1), func() (any, error) { return shape.GetSpatialIdsOnPoints(pts, badZoom(r)) })
			}
		} else {
			pts[r.Intn(2)] = nil
			what = "nil-point"
			if r.P(0.03) { // a long list (up to 2^19 + 1 points) with the nil point first, last or anywhere
				n := []int{longLen(r), veryLongLen(r), 1 << 18, 1<<18 + 3, 1<<19 + 1}[r.Intn(5)]
				p := vpoint()
				pts = make([]*object.Point, n)
				for i := range pts {
					pts[i] = p
				}
				pts[[]int{0, 0, n - 1, r.Intn(n)}[r.Intn(4)]] = nil
				c.Tag("nil-point-in-long-list")
				c.Procs()
			}
			if r.Bool() {
				do("shape.GetExtendedSpatialIdsOnPoints", "nil point", func() (any, error) { return shape.GetExtendedSpatialIdsOnPoints(pts, hz, vz) })
			} else {
				do("shape.GetSpatialIdsOnPoints", "nil point", func() (any, error) { return shape.GetSpatialIdsOnPoints(pts, hz) })
			}
		}
	case 1: // GetPointOnExtendedSpatialId: malformed ID / zoom field out of range / unknown option
		opt := enum.PointOption(r.Intn(2))
		id := vext()
		valid := id
		prime = func() { shape.GetPointOnExtendedSpatialId(valid, opt) }
		switch r.Intn(3) {
		case 0:
			id, what, _ = malformID(r, id)
		case 1:
			a := genID(r, hz, hz, vz, vz)
			if r.Bool() {
				a.H = []int64{36, -1, 40}[r.Intn(3)]
			} else {
				a.V = []int64{36, -1, 40}[r.Intn(3)]
			}
			id, what = a.Ext(), "zoom-field"
		default:
			opt, what = enum.PointOption([]int{2, -1, 7, 1 << 20}[r.Intn(4)]), "option"
		}
		do("shape.GetPointOnExtendedSpatialId", fmt.Sprintf("%q opt %d", id, opt), func() (any, error) { return shape.GetPointOnExtendedSpatialId(id, opt) })
	case 2: // GetPointOnSpatialId
		opt := enum.PointOption(r.Intn(2))
		id := vsp()
		switch r.Intn(3) {
		case 0:
			id, what, _ = malformID(r, id)
		case 1:
			a := genID(r, 5, 5, 5, 5)
			a.H = []int64{36, -1, 40}[r.Intn(3)]
			id, what = a.Spatial(), "zoom-field"
		default:
			opt, what = enum.PointOption([]int{2, -1, 7}[r.Intn(3)]), "option"
		}
		do("shape.GetPointOnSpatialId", fmt.Sprintf("%q opt %d", id, opt), func() (any, error) { return shape.GetPointOnSpatialId(id, opt) })
	case 3: // pure notation converters: wrong arity only
		for {
			var arity bool
			var bad string
			if r.Bool() {
				bad, what, arity = malformID(r, vsp())
				if !arity {
					continue
				}
				l := mixList(r, vsp, bad)
				do("shape.ConvertSpatialIdsToExtendedSpatialIds", fmt.Sprintf("%q", l), func() (any, error) { return shape.ConvertSpatialIdsToExtendedSpatialIds(l) })
			} else {
				bad, what, arity = malformID(r, vext())
				if !arity {
					continue
				}
				l := mixList(r, vext, bad)
				do("shape.ConvertExtendedSpatialIdsToSpatialIds", fmt.Sprintf("%q", l), func() (any, error) { return shape.ConvertExtendedSpatialIdsToSpatialIds(l) })
			}
			break
		}
	case 4: // lines: nil point / bad zoom
		a, b := vpoint(), vpoint()
		if r.Bool() {
			if r.Bool() {
				a = nil
			} else {
				b = nil
			}
			what = "nil-point"
			if r.Bool() {
				do("shape.GetExtendedSpatialIdsOnLine", "nil point", func() (any, error) { return shape.GetExtendedSpatialIdsOnLine(a, b, 10, 10) })
			} else {
				do("shape.GetSpatialIdsOnLine", "nil point", func() (any, error) { return shape.GetSpatialIdsOnLine(a, b, 10) })
			}
		} else {
			what, expectEmptyList = "zoom", true
			z := badZoom(r)
			b, _ = object.NewPoint(a.Lon(), a.Lat(), a.Alt()) // identical ends: cheap even if the zoom were accepted
			if r.Bool() {
				do("shape.GetExtendedSpatialIdsOnLine", fmt.Sprint(z), func() (any, error) {
					if r.Bool() {
						return shape.GetExtendedSpatialIdsOnLine(a, b, z, 10)
					}
					return shape.GetExtendedSpatialIdsOnLine(a, b, 10, z)
				})
			} else {
				do("shape.GetSpatialIdsOnLine", fmt.Sprint(z), func() (any, error) { return shape.GetSpatialIdsOnLine(a, b, z) })
			}
		}
	case 5: // projection: unknown EPSG code
		code := []int{0, -1, 6677, 999999, 3856, 1}[r.Intn(6)]
		what = "epsg"
		if r.Bool() {
			pts := []*object.Point{vpoint()}
			do("shape.ConvertPointListToProjectedPointList", fmt.Sprint(code), func() (any, error) { return shape.ConvertPointListToProjectedPointList(pts, code) })
		} else {
			pp := []*object.ProjectedPoint{{X: 1000, Y: 2000, Alt: 3}}
			do("shape.ConvertProjectedPointListToPointList", fmt.Sprint(code), func() (any, error) { return shape.ConvertProjectedPointListToPointList(pp, code) })
		}
	// ---- integrate ----
	case 6, 7:
		if r.Bool() {
			z1, z2 := badZoom(r), clampI(hz+r.Range(-1, 1), 0, 35)
			if r.Bool() {
				z1, z2 = z2, z1
			}
			l := []string{vext()}
			what, expectEmptyList = "zoom", true
			if k == 6 {
				do("integrate.ChangeExtendedSpatialIdsZoom", fmt.Sprintf("%q %d %d", l, z1, z2), func() (any, error) { return integrate.ChangeExtendedSpatialIdsZoom(l, z1, z2) })
			} else {
				do("integrate.MergeExtendedSpatialIds", fmt.Sprintf("%q %d %d", l, z1, z2), func() (any, error) { return integrate.MergeExtendedSpatialIds(l, z1, z2) })
			}
		} else {
			valid := vext()
			bad, kind, _ := malformID(r, valid)
			l := mixList(r, vext, bad)
			what = kind
			prime = func() {
				integrate.ChangeExtendedSpatialIdsZoom([]string{valid}, hz, vz)
				integrate.MergeExtendedSpatialIds([]string{valid}, hz, vz)
			}
			if k == 6 {
				do("integrate.ChangeExtendedSpatialIdsZoom", fmt.Sprintf("%q", l), func() (any, error) { return integrate.ChangeExtendedSpatialIdsZoom(l, hz, vz) })
			} else {
				do("integrate.MergeExtendedSpatialIds", fmt.Sprintf("%q", l), func() (any, error) { return integrate.MergeExtendedSpatialIds(l, hz, vz) })
			}
		}
	case 8, 9:
		z := clampI(hz, 1, 35)
		if r.Bool() {
			bz := badZoom(r)
			l := []string{vsp()}
			what, expectEmptyList = "zoom", true
			if k == 8 {
				do("integrate.ChangeSpatialIdsZoom", fmt.Sprintf("%q %d", l, bz), func() (any, error) { return integrate.ChangeSpatialIdsZoom(l, bz) })
			} else {
				do("integrate.MergeSpatialIds", fmt.Sprintf("%q %d", l, bz), func() (any, error) { return integrate.MergeSpatialIds(l, bz) })
			}
		} else {
			bad, kind, _ := malformID(r, vsp())
			l := mixList(r, vsp, bad)
			what = kind
			if k == 8 {
				do("integrate.ChangeSpatialIdsZoom", fmt.Sprintf("%q", l), func() (any, error) { return integrate.ChangeSpatialIdsZoom(l, z) })
			} else {
				do("integrate.MergeSpatialIds", fmt.Sprintf("%q", l), func() (any, error) { return integrate.MergeSpatialIds(l, z) })
			}
		}
	// ---- operated ----
	case 10, 11: // shift helpers: empty ID signal
		valid := vext()
		bad, kind, _ := malformID(r, valid)
		what, emptyIDSignal = kind, true
		prime = func() { operated.GetShiftingSpatialID(valid, 1, 0, 0); operated.Get6spatialIdsAdjacentToFaces(valid) }
		switch r.Intn(4) {
		case 0:
			do("operated.GetShiftingSpatialID", fmt.Sprintf("%q", bad), func() (any, error) {
				return []string{operated.GetShiftingSpatialID(bad, r.Range(-2, 2), r.Range(-2, 2), r.Range(-2, 2))}, nil
			})
		case 1:
			do("operated.Get6spatialIdsAdjacentToFaces", fmt.Sprintf("%q", bad), func() (any, error) { return operated.Get6spatialIdsAdjacentToFaces(bad), nil })
		case 2:
			do("operated.Get8spatialIdsAroundHorizontal", fmt.Sprintf("%q", bad), func() (any, error) { return operated.Get8spatialIdsAroundHorizontal(bad), nil })
		default:
			do("operated.Get26spatialIdsAroundVoxel", fmt.Sprintf("%q", bad), func() (any, error) { return operated.Get26spatialIdsAroundVoxel(bad), nil })
		}
	case 12: // N-layer: negative layers / malformed ID
		if r.Bool() {
			hl, vl := r.Range(-3, -1), r.Range(0, 2)
			if r.Bool() {
				hl, vl = vl, hl
			}
			if r.P(0.2) {
				hl = math.MinInt64
			}
			l := []string{vext()}
			what = "negative-layers"
			do("operated.GetNspatialIdsAroundVoxcels", fmt.Sprintf("%q %d %d", l, hl, vl), func() (any, error) { return operated.GetNspatialIdsAroundVoxcels(l, hl, vl) })
		} else {
			bad, kind, _ := malformID(r, vext())
			l := mixList(r, vext, bad)
			what, nlayer = kind, true
			hl, vl := r.Range(0, 1), r.Range(0, 1)
			if hl+vl == 0 { // with no layers there are no offsets and the list is never looked at
				hl = 1
			}
			do("operated.GetNspatialIdsAroundVoxcels", fmt.Sprintf("%q layers %d %d", l, hl, vl), func() (any, error) { return operated.GetNspatialIdsAroundVoxcels(l, hl, vl) })
		}
	// ---- detector ----
	case 13, 14, 15, 16:
		expectFalse = true
		if k <= 14 {
			valid := vext()
			bad, kind, _ := malformID(r, valid)
			other := vext()
			prime = func() { detector.CheckExtendedSpatialIdsOverlap(valid, other) }
			if r.P(0.3) {
				other = bad // the same malformed string on both sides
			}
			what = kind
			if k == 13 {
				a, b := bad, other
				if r.Bool() {
					a, b = b, a
				}
				do("detector.CheckExtendedSpatialIdsOverlap", fmt.Sprintf("%q %q", a, b), func() (any, error) { return detector.CheckExtendedSpatialIdsOverlap(a, b) })
			} else {
				l1, l2 := mixList(r, vext, bad), []string{other, vext()}
				switch r.Intn(6) {
				case 0: // nothing opposite the malformed ID
					l2 = []string{}
					if r.Bool() {
						l2 = nil
					}
				case 1: // the malformed string is the only content of both lists
					l1, l2 = []string{bad}, []string{bad}
				case 2:
					l1, l2 = []string{bad, bad}, []string{bad}
				}
				if r.Bool() {
					l1, l2 = l2, l1
				}
				do("detector.CheckExtendedSpatialIdsArrayOverlap", fmt.Sprintf("%q %q", l1, l2), func() (any, error) { return detector.CheckExtendedSpatialIdsArrayOverlap(l1, l2) })
			}
		} else {
			bad, kind, _ := malformID(r, vsp())
			if r.P(0.25) { // documented: altitude outside the +-2^24 m window is an error
				z := clampI(hz, 1, 35)
				a := genID(r, z, z, z, z)
				a.F = []int64{pow2(z - 1), -pow2(z-1) - 1, pow2(z) - 1, -pow2(z)}[r.Intn(4)]
				bad, kind = a.Spatial(), "altitude-window"
			}
			other := vsp()
			if r.P(0.3) {
				other = bad
			}
			what = kind
			if k == 15 {
				a, b := bad, other
				if r.Bool() {
					a, b = b, a
				}
				do("detector.CheckSpatialIdsOverlap", fmt.Sprintf("%q %q", a, b), func() (any, error) { return detector.CheckSpatialIdsOverlap(a, b) })
			} else {
				l1, l2 := mixList(r, vsp, bad), []string{other}
				switch r.Intn(6) {
				case 0:
					l1, l2 = []string{bad}, []string{bad}
				case 1:
					l1, l2 = []string{bad, bad}, []string{bad}
				}
				if r.Bool() {
					l1, l2 = l2, l1
				}
				do("detector.CheckSpatialIdsArrayOverlap", fmt.Sprintf("%q %q", l1, l2), func() (any, error) { return detector.CheckSpatialIdsArrayOverlap(l1, l2) })
			}
		}
	// ---- transform ----
	case 17, 18, 19: // forward quadkey conversions
		qh := r.Range(1, 31)
		qv := r.Range(0, 35)
		vq := func() string {
			return genID(r, clampI(qh+r.Range(-1, 1), 1, 31), clampI(qh+r.Range(-1, 1), 1, 31), clampI(qv+r.Range(-1, 1), 0, 35), clampI(qv+r.Range(-1, 1), 0, 35)).Ext()
		}
		vqs := func() string { z := clampI(qh, 1, 31); return genID(r, z, z, z, z).Spatial() }
		mode := r.Intn(3)
		switch {
		case mode == 0: // bad output zoom
			z1, z2 := badQuadZoom(r), qv
			if r.P(0.3) {
				z1, z2 = qh, badZoom(r)
			}
			what, expectEmptyList = "zoom", true
			l := []string{vq()}
			switch k {
			case 17:
				do("transform.ConvertExtendedSpatialIDsToQuadkeysAndVerticalIDs", fmt.Sprintf("%q %d %d", l, z1, z2), func() (any, error) {
					return transform.ConvertExtendedSpatialIDsToQuadkeysAndVerticalIDs(l, z1, z2, 0, 0)
				})
			case 18:
				do("transform.ConvertExtendedSpatialIDsToQuadkeysAndAltitudekeys", fmt.Sprintf("%q %d %d", l, z1, z2), func() (any, error) {
					return transform.ConvertExtendedSpatialIDsToQuadkeysAndAltitudekeys(l, z1, z2, 25, 1<<24)
				})
			default:
				ls := []string{vqs()}
				do("transform.ConvertSpatialIDsToQuadkeysAndVerticalIDs", fmt.Sprintf("%q %d %d", ls, z1, z2), func() (any, error) { return transform.ConvertSpatialIDsToQuadkeysAndVerticalIDs(ls, z1, z2, 0, 0) })
			}
		case mode == 1: // malformed ID
			switch k {
			case 17:
				bad, kind, _ := malformID(r, vq())
				l := mixList(r, vq, bad)
				what = kind
				do("transform.ConvertExtendedSpatialIDsToQuadkeysAndVerticalIDs", fmt.Sprintf("%q", l), func() (any, error) {
					return transform.ConvertExtendedSpatialIDsToQuadkeysAndVerticalIDs(l, qh, qv, 0, 0)
				})
			case 18:
				bad, kind, _ := malformID(r, vq())
				l := mixList(r, vq, bad)
				what = kind
				do("transform.ConvertExtendedSpatialIDsToQuadkeysAndAltitudekeys", fmt.Sprintf("%q", l), func() (any, error) {
					return transform.ConvertExtendedSpatialIDsToQuadkeysAndAltitudekeys(l, qh, qv, 25, 1<<24)
				})
			default:
				bad, kind, _ := malformID(r, vqs())
				l := mixList(r, vqs, bad)
				what = kind
				do("transform.ConvertSpatialIDsToQuadkeysAndVerticalIDs", fmt.Sprintf("%q", l), func() (any, error) { return transform.ConvertSpatialIDsToQuadkeysAndVerticalIDs(l, qh, qh, 0, 0) })
			}
		default: // maxHeight < minHeight
			what = "max<min"
			l := []string{vq()}
			mx := r.Uniform(-100, 100)
			mn := mx + r.Uniform(0.001, 500)
			if k == 19 {
				ls := []string{vqs()}
				do("transform.ConvertSpatialIDsToQuadkeysAndVerticalIDs", fmt.Sprintf("%q max %v min %v", ls, mx, mn), func() (any, error) { return transform.ConvertSpatialIDsToQuadkeysAndVerticalIDs(ls, qh, qh, mx, mn) })
			} else {
				do("transform.ConvertExtendedSpatialIDsToQuadkeysAndVerticalIDs", fmt.Sprintf("%q max %v min %v", l, mx, mn), func() (any, error) {
					return transform.ConvertExtendedSpatialIDsToQuadkeysAndVerticalIDs(l, qh, qv, mx, mn)
				})
			}
		}
	case 20, 21: // backward quadkey conversions
		qz, vzz := r.Range(1, 31), r.Range(0, 35)
		q := r.I64n(pow2(2 * clampI(qz, 1, 20)))
		oh, ov := clampI(qz+r.Range(-1, 1), 0, 35), clampI(vzz+r.Range(-1, 1), 0, 35)
		mx, mn := 0.0, 0.0
		switch r.Intn(3) {
		case 0: // bad output zoom
			if r.Bool() {
				oh = badZoom(r)
			} else {
				ov = badZoom(r)
			}
			what, expectEmptyList = "zoom", true
		case 1: // bad zoom inside the object
			if r.Bool() {
				qz = badQuadZoom(r)
				for qz == 35 || qz == 33 {
					qz = badQuadZoom(r)
				}
				if qz >= 1 && qz <= 31 {
					qz = 0
				}
			} else {
				vzz = badZoom(r)
			}
			what, expectEmptyList = "object-zoom", true
		default:
			mx = r.Uniform(-100, 100)
			mn = mx + r.Uniform(0.001, 500)
			what = "max<min"
		}
		objs := []*object.QuadkeyAndVerticalID{object.NewQuadkeyAndVerticalID(qz, q, vzz, r.Range(-3, 3), mx, mn)}
		if k == 20 {
			do("transform.ConvertQuadkeysAndVerticalIDsToExtendedSpatialIDs", fmt.Sprintf("qz %d q %d vz %d -> %d %d (max %v min %v)", qz, q, vzz, oh, ov, mx, mn), func() (any, error) { return transform.ConvertQuadkeysAndVerticalIDsToExtendedSpatialIDs(objs, oh, ov) })
		} else {
			if what == "zoom" {
				oh = badZoom(r)
			}
			do("transform.ConvertQuadkeysAndVerticalIDsToSpatialIDs", fmt.Sprintf("qz %d q %d vz %d -> %d (max %v min %v)", qz, q, vzz, oh, mx, mn), func() (any, error) { return transform.ConvertQuadkeysAndVerticalIDsToSpatialIDs(objs, oh) })
		}
	case 22, 23: // tiles: bad output zoom, key out of range
		t, _ := object.NewTileXYZ(20, 85263, 65423, 23, 0)
		tiles := []*object.TileXYZ{t}
		ov := int64(23)
		if r.Bool() {
			ov, what, expectEmptyList = badZoom(r), "zoom", true
		} else {
			t.SetZ([]int64{-1, pow2(23), -7, pow2(23) + 5}[r.Intn(4)])
			what = "key-out-of-range"
		}
		if k == 22 {
			do("transform.ConvertTileXYZsToExtendedSpatialIDs", fmt.Sprintf("z %d outV %d", t.Z(), ov), func() (any, error) { return transform.ConvertTileXYZsToExtendedSpatialIDs(tiles, 25, 8, ov) })
		} else {
			do("transform.ConvertTileXYZsToSpatialIDs", fmt.Sprintf("z %d outV %d", t.Z(), ov), func() (any, error) { return transform.ConvertTileXYZsToSpatialIDs(tiles, 25, 8, ov) })
		}
	case 24: // altitude conversions: source index that does not exist
		z := r.Range(0, 35)
		what = "index-out-of-range"
		if r.Bool() {
			idx := []int64{-pow2(z) - 1, pow2(z), -pow2(z) - r.Range(1, 99), pow2(z) + r.Range(1, 99)}[r.Intn(4)]
			do("transform.ConvertZToMinMaxAltitudekey", fmt.Sprint(idx, z), func() (any, error) {
				_, _, e := transform.ConvertZToMinMaxAltitudekey(idx, z, z, 25, 1<<24)
				return nil, e
			})
		} else {
			idx := []int64{-1, pow2(z), -r.Range(1, 99), pow2(z) + r.Range(1, 99)}[r.Intn(4)]
			do("transform.ConvertAltitudekeyToMinMaxZ", fmt.Sprint(idx, z), func() (any, error) {
				_, _, e := transform.ConvertAltitudekeyToMinMaxZ(idx, z, z, 25, 1<<24)
				return nil, e
			})
		}
	case 25, 26: // corridor: negative radius, bad zoom, nil point
		a, b := vpoint(), vpoint()
		b, _ = object.NewPoint(a.Lon(), a.Lat(), a.Alt())
		rad, h, v := 1.0, int64(20), int64(20)
		switch r.Intn(3) {
		case 0:
			rad, what = -math.Pow(10, r.Uniform(-12, 6)), "negative-radius"
			if r.P(0.1) {
				rad = math.Inf(-1)
			}
		case 1:
			if r.Bool() {
				h = badZoom(r)
			} else {
				v = badZoom(r)
			}
			what = "zoom"
		default:
			if r.Bool() {
				a = nil
			} else {
				b = nil
			}
			what = "nil-point"
		}
		skip := r.Bool()
		do("transform.GetExtendedSpatialIdsWithinRadiusOfLine", fmt.Sprintf("r %v zoom %d %d skip %v", rad, h, v, skip), func() (any, error) {
			return transform.GetExtendedSpatialIdsWithinRadiusOfLine(a, b, rad, h, v, skip)
		})
	case 27: // clearance fit: negative clearance, malformed ID
		id := genID(r, 10, 25, 0, 35).Ext()
		cl := 1.0
		valid := id
		prime = func() { transform.FitClearanceAroundExtendedSpatialID(valid, 1.0) }
		if r.Bool() {
			cl, what = -math.Pow(10, r.Uniform(-12, 6)), "negative-radius"
		} else {
			id, what, _ = malformID(r, id)
		}
		do("transform.FitClearanceAroundExtendedSpatialID", fmt.Sprintf("%q %v", id, cl), func() (any, error) {
			_, _, e := transform.FitClearanceAroundExtendedSpatialID(id, cl)
			return nil, e
		})
	// ---- object ----
	case 28, 29, 30: // points: out-of-range coordinates
		lon, lat, alt := r.Uniform(-180, 180), r.Uniform(-85, 85), r.Uniform(-1e6, 1e6)
		excess := []float64{1e-10, 1e-9, 1e-6, 1, 90, 1e10, 1e300, math.Inf(1)}[r.Intn(8)]
		sign := float64(2*r.Intn(2) - 1)
		which := r.Intn(2)
		if which == 0 {
			lon = sign * (180 + excess)
			if lon == sign*180 { // 180 + 1e-10 is representable, but keep the guard
				lon = sign * math.Nextafter(180, 181)
			}
			what = "lon-out-of-range"
		} else {
			lat = sign * (85.05112878 + excess) // >= 1e-10 beyond the last accepted 1e-10 step
			what = "lat-out-of-range"
		}
		switch k {
		case 28:
			do("object.NewPoint", fmt.Sprintf("%.17g %.17g", lon, lat), func() (any, error) { _, e := object.NewPoint(lon, lat, alt); return nil, e })
		case 29:
			if which == 0 {
				do("object.Point.SetLon", fmt.Sprintf("%.17g", lon), func() (any, error) { p := &object.Point{}; return nil, p.SetLon(lon) })
			} else {
				do("object.Point.SetLat", fmt.Sprintf("%.17g", lat), func() (any, error) { p := &object.Point{}; return nil, p.SetLat(lat) })
			}
		default: // a refused setter must not change the stored value
			p, _ := object.NewPoint(10, 20, 30)
			do("object.Point.Set*(refused keeps value)", fmt.Sprintf("%.17g %.17g", lon, lat), func() (any, error) {
				var e error
				if which == 0 {
					e = p.SetLon(lon)
				} else {
					e = p.SetLat(lat)
				}
				if e != nil && (p.Lon() != 10 || p.Lat() != 20) {
					return nil, nil // report as "no error" so that the judge flags it; detail below
				}
				return nil, e
			})
		}
	case 31: // accepted points: stored values
		lon, lat, alt := genLon(r, 20), genLat(r, 20), genAlt(r, 25)
		if r.P(0.2) {
			lat = math.Copysign(r.Uniform(85.0511287797, 85.0511287798), lat)
		}
		fn, what, args = "object.NewPoint(accepted)", "accepted-point", fmt.Sprintf("%.17g %.17g %.17g", lon, lat, alt)
		c.Tag("fn:" + fn)
		c.KS(fn, args)
		c.Desc = func() any { return map[string]any{"function": fn, "args": args} }
		var p *object.Point
		var err error
		o := c15Try(func() (any, error) { p, err = object.NewPoint(lon, lat, alt); return nil, err })
		c.Call()
		if o.panicked {
			c.Fail("panic", o.stack, "NewPoint(%v,%v,%v) panicked: %v", lon, lat, alt, o.pv)
			return
		}
		if err != nil {
			c.Fail("point-refused", nil, "NewPoint(%.17g,%.17g,%.17g) refused an in-domain point: %v", lon, lat, alt, err)
			return
		}
		if math.Float64bits(p.Lon()) != math.Float64bits(lon) || math.Float64bits(p.Alt()) != math.Float64bits(alt) {
			c.Fail("point-stored-lon-alt", nil, "NewPoint(%.17g,%.17g,%.17g) stored lon %v alt %v", lon, lat, alt, p.Lon(), p.Alt())
			return
		}
		cut := math.Abs(lat) - math.Abs(p.Lat())
		if cut < -2e-14 || cut >= 1e-10+1e-13 || (p.Lat() != 0 && math.Signbit(p.Lat()) != math.Signbit(lat)) {
			c.Fail("point-stored-lat", nil, "NewPoint: lat %.17g stored as %.17g (cut toward zero by %.3g, must be in [0,1e-10))", lat, p.Lat(), cut)
		}
		return
	case 32, 33: // extended-ID object parser
		validP := vext()
		bad, kind, _ := malformID(r, validP)
		what = kind
		prime = func() { object.NewExtendedSpatialID(validP) }
		if k == 32 {
			do("object.NewExtendedSpatialID", fmt.Sprintf("%q", bad), func() (any, error) { _, e := object.NewExtendedSpatialID(bad); return nil, e })
		} else {
			valid := vext()
			do("object.ExtendedSpatialID.ResetExtendedSpatialID", fmt.Sprintf("%q", bad), func() (any, error) {
				o, _ := object.NewExtendedSpatialID(valid)
				e := o.ResetExtendedSpatialID(bad)
				if e != nil && o.ID() != valid {
					return nil, fmt.Errorf("refused but object changed to %q: %w", o.ID(), e)
				}
				return nil, e
			})
		}
	case 34, 35, 36: // tile constructor / setters
		z := []int64{-1, 36, -5, 40, math.MinInt64, 1 << 40}[r.Intn(6)]
		what = "zoom"
		switch k {
		case 34:
			hz2, vz2 := z, r.Range(0, 35)
			if r.Bool() {
				hz2, vz2 = vz2, hz2
			}
			do("object.NewTileXYZ", fmt.Sprint(hz2, vz2), func() (any, error) {
				t, e := object.NewTileXYZ(hz2, 0, 0, vz2, 0)
				if t != nil && e != nil {
					return []string{"non-nil tile"}, e
				}
				return nil, e
			})
		case 35:
			do("object.TileXYZ.SetHZoom", fmt.Sprint(z), func() (any, error) { t, _ := object.NewTileXYZ(5, 1, 1, 5, 1); return nil, t.SetHZoom(z) })
		default:
			do("object.TileXYZ.SetVZoom", fmt.Sprint(z), func() (any, error) { t, _ := object.NewTileXYZ(5, 1, 1, 5, 1); return nil, t.SetVZoom(z) })
		}
	case 37: // long lists: more than 1024 pairs, one overlapping pair early, the malformed ID anywhere
		expectFalse = true
		n1, n2 := 30+r.Intn(20), 36+r.Intn(20)
		var l1, l2 []string
		for len(l1) < n1 {
			l1 = append(l1, vext())
		}
		for len(l2) < n2 {
			l2 = append(l2, vext())
		}
		if r.P(0.7) { // an overlap involving the first element of the first list
			l2[r.Intn(n2)] = l1[0]
		}
		bad, kind, _ := malformID(r, vext())
		if r.Bool() {
			l1[r.Intn(n1)] = bad
		} else {
			l2[r.Intn(n2)] = bad
		}
		what = kind
		if r.Bool() {
			l1, l2 = l2, l1
		}
		do("detector.CheckExtendedSpatialIdsArrayOverlap", fmt.Sprintf("long lists (%d x %d) with %q", len(l1), len(l2), bad), func() (any, error) { return detector.CheckExtendedSpatialIdsArrayOverlap(l1, l2) })
	default: // 38..39: whole-list corruptions of the most used entry points (several malformed entries, nil list)
		bad1, k1, _ := malformID(r, vext())
		bad2, k2, _ := malformID(r, vext())
		l := []string{bad1, vext(), bad2}
		what = "two-malformed-entries"
		_, _ = k1, k2
		switch k {
		case 38:
			if r.Bool() {
				do("integrate.ChangeExtendedSpatialIdsZoom", fmt.Sprintf("%q", l), func() (any, error) { return integrate.ChangeExtendedSpatialIdsZoom(l, hz, vz) })
				break
			}
			do("integrate.MergeExtendedSpatialIds", fmt.Sprintf("%q", l), func() (any, error) { return integrate.MergeExtendedSpatialIds(l, hz, vz) })
		default:
			expectFalse = true
			do("detector.CheckExtendedSpatialIdsArrayOverlap", fmt.Sprintf("%q", l), func() (any, error) { return detector.CheckExtendedSpatialIdsArrayOverlap(l, []string{vext()}) })
		}
	}

judge:
	c.Call()
	c.Tag("fn:" + fn)
	c.Tag("corruption:" + strings.SplitN(what, "@", 2)[0])
	c.KS(fn, what, args)
	c.Desc = func() any {
		return map[string]any{"function": fn, "corruption": what, "args": args, "result": fmt.Sprintf("%v", out.res), "error": fmt.Sprint(out.err), "panicked": out.panicked}
	}
	if out.panicked {
		c.Fail("panic:"+fn, out.stack, "%s(%s) panicked on a %s input: %v", fn, args, what, out.pv)
		return
	}
	if out.hung {
		c.Fail("no-refusal-hang:"+fn, nil, "%s(%s): the call had not returned after %v on a %s input (it must be refused with an error)", fn, args, c15Deadline, what)
		return
	}
	if emptyIDSignal {
		ids, _ := out.res.([]string)
		for _, s := range ids {
			if s != "" {
				c.Fail("no-refusal:"+fn, nil, "%s(%s): malformed ID (%s) produced the non-empty ID %q", fn, args, what, s)
				return
			}
		}
		if len(ids) == 0 {
			c.Fail("no-refusal:"+fn, nil, "%s(%s): returned nothing", fn, args)
		}
		return
	}
	if nlayer && out.err == nil {
		// accepted: a result consisting solely of empty IDs (the shift helpers' failure signal)
		ids, _ := out.res.([]string)
		for _, s := range ids {
			if s != "" {
				if _, e := ref.ParseExt(s); e == nil {
					continue // neighbours of the valid entries of the list are fine
				}
				c.Fail("no-refusal:"+fn, nil, "%s(%s): malformed ID (%s) fabricated the ID %q", fn, args, what, s)
				return
			}
		}
		found := false
		for _, s := range ids {
			if s == "" {
				found = true
			}
		}
		if !found {
			c.Fail("no-refusal:"+fn, nil, "%s(%s): a malformed ID (%s) neither produced an error nor the empty-ID failure signal", fn, args, what)
		}
		return
	}
	if out.err == nil {
		c.Fail("no-refusal:"+fn, nil, "%s(%s): %s input was accepted (result %v, no error)", fn, args, what, trunc1(out.res))
		return
	}
	if expectEmptyList && lenOf(out.res) > 0 {
		c.Fail("non-empty-on-zoom-error:"+fn, nil, "%s(%s): error returned together with a non-empty result %v", fn, args, trunc1(out.res))
		return
	}
	if expectFalse {
		if b, ok := out.res.(bool); ok && b {
			c.Fail("true-on-error:"+fn, nil, "%s(%s): error returned together with true", fn, args)
		}
	}
}

func trunc1(v any) string {
	s := fmt.Sprintf("%v", v)
	if len(s) > 200 {
		return s[:200] + "…"
	}
	return s
}
