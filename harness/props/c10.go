package props

import (
	"fmt"

	"github.com/trajectoryjp/spatial_id_go/v4/common/object"
	"github.com/trajectoryjp/spatial_id_go/v4/shape"
	"github.com/trajectoryjp/spatial_id_go/v4/transform"

	"verifmon/core"
	"verifmon/ref"
)

// C10 — converting between ID notations loses nothing.
func init() {
	core.Register(&core.Monitor{
		ID:        "C10",
		Technique: "reference-model monitor (field permutation, dyadic expansion) + round-trip relations between calls + concurrent scenarios (4-64 goroutines issuing the same judged calls at once) + hostile scheduler widths",
		Rule: "per case: a list of 0-10 valid IDs with asymmetric values (x != y != f, h != v, negative f, repeated entries), converted spatial->extended->spatial and extended->spatial->extended " +
			"(element-wise identity, length and order), each direction against the reference permutation; parse/print/FieldParams/getters of the object; GetVoxelIDfromSpatialID; " +
			"expansion of an extended ID with |h-v| <= 4 into spatial IDs (duplicate-free, at max(h,v), set equal to the dyadic descendants, count 4^d or 2^d). " +
			"Non-trivial = list non-empty with some x,y,f pairwise different or h != v; distinct by list.",
		Assume: []string{"reference: z/f/x/y <-> h/x/y/v/f with h=v=z; descendants [i<<d,(i+1)<<d) per refined axis"},
		N:      tierN(250_000, 6_000_000),
		Floor:  tierN(1000, 10000),
		Run:    runC10,
	})
}

// c10Huge: notation round trip of a list of 2^20 + 5 IDs (both tiers) and of 2^21 + 65537 IDs (thorough tier).
func c10Huge(c *core.Case) {
	r := c.R
	n := []int{1<<20 + 5, 1<<21 + 65537}[c.I]
	c.Tag("list>=2^20")
	c.NonTrivial()
	c.Procs()
	sq := make([]ref.ID, n)
	for i := range sq {
		z := genZoom(r)
		sq[i] = genID(r, z, z, z, z)
	}
	sp, ex := ref.Spatials(sq), ref.Exts(sq)
	c.KS(sp[0], sp[n-1])
	c.KI(int64(n))
	c.Desc = func() any { return map[string]any{"list_length": n, "first": sp[0], "last": sp[n-1]} }
	gotEx, err := shape.ConvertSpatialIdsToExtendedSpatialIds(sp)
	c.Call()
	if err != nil || len(gotEx) != n {
		c.Fail("notation-length", nil, "ConvertSpatialIdsToExtendedSpatialIds on %d IDs: %d outputs, err %v", n, len(gotEx), err)
		return
	}
	for i := range ex {
		if gotEx[i] != ex[i] {
			c.Fail("notation-permutation", nil, "ConvertSpatialIdsToExtendedSpatialIds on %d IDs: element %d: %q -> %q, want %q", n, i, sp[i], gotEx[i], ex[i])
			return
		}
	}
	back, err := shape.ConvertExtendedSpatialIdsToSpatialIds(gotEx)
	c.Call()
	if err != nil || len(back) != n {
		c.Fail("notation-roundtrip", nil, "spatial->extended->spatial on %d IDs: %d outputs, err %v", n, len(back), err)
		return
	}
	for i := range sp {
		if back[i] != sp[i] {
			c.Fail("notation-roundtrip", nil, "spatial->extended->spatial on %d IDs: element %d: %q came back as %q", n, i, sp[i], back[i])
			return
		}
	}
}

func runC10(c *core.Case) {
	r := c.R
	if c.I == 0 || (c.Tier == "thorough" && c.I == 1) {
		c10Huge(c)
		return
	}
	if hammerWanted(c, 2) {
		c10Hammer(c, 2)
		return
	}
	n := r.Intn(11)
	var sq []ref.ID // h == v IDs for the notation round trip
	for i := 0; i < n; i++ {
		z := genZoom(r)
		a := genID(r, z, z, z, z)
		if len(sq) > 0 && r.P(0.2) {
			a = sq[r.Intn(len(sq))]
		}
		sq = append(sq, a)
	}
	if r.P(0.0003) || (c.Tier == "thorough" && r.P(0.0003)) { // very long lists (2^15 .. 2^17 + 3)
		for n := veryLongLen(r); len(sq) < n; {
			z := genZoom(r)
			sq = append(sq, genID(r, z, z, z, z))
		}
		c.Tag("very-long-list")
		c.Procs()
	} else if r.P(0.004) { // long lists around batch sizes: length and order must survive chunking/parallelisation
		for n := longLen(r); len(sq) < n; {
			z := genZoom(r)
			sq = append(sq, genID(r, z, z, z, z))
		}
		c.Tag("long-list")
		c.Procs()
	}
	sp := ref.Spatials(sq)
	ex := ref.Exts(sq)
	e := genID(r, 0, 35, 0, 35)
	if d := e.H - e.V; d > 4 || d < -4 {
		if r.Bool() {
			e.V = clampI(e.H+r.Range(-4, 4), 0, 35)
			e.F = edgeF(r, e.V)
		} else {
			e.H = clampI(e.V+r.Range(-4, 4), 0, 35)
			e.X, e.Y = edgeIndex(r, pow2(e.H)), edgeIndex(r, pow2(e.H))
		}
	}
	if r.P(0.0015) { // large expansion (2^16 .. 2^18 spatial IDs) under a hostile scheduler width
		d := r.Range(8, 9)
		e.H = r.Range(0, 35-d)
		e.V = e.H + d
		e.X, e.Y, e.F = edgeIndex(r, pow2(e.H)), edgeIndex(r, pow2(e.H)), edgeF(r, e.V)
		if r.P(0.3) { // vertical expansion of the same size
			e.V = r.Range(0, 18)
			e.H = e.V + r.Range(16, 17)
			e.X, e.Y, e.F = edgeIndex(r, pow2(e.H)), edgeIndex(r, pow2(e.H)), edgeF(r, e.V)
		}
		c.Procs()
		c.Tag("expansion>=2^16")
	}
	es := e.Ext()
	var obs []string
	c.Desc = func() any { return map[string]any{"spatial_ids": sp, "extended_id": es, "observed": obs} }
	keyStrings(c, sp)
	c.KS(es)
	if e.H != e.V || (e.X != e.Y && e.Y != e.F && e.X != e.F) {
		c.NonTrivial()
	}
	if e.F < 0 {
		c.Tag("negative-f")
	}

	spCopy, exCopy := copyStrings(sp), copyStrings(ex)
	// spatial -> extended (reference permutation), -> spatial (identity)
	gotEx, err := shape.ConvertSpatialIdsToExtendedSpatialIds(sp)
	c.Call()
	obs = append(obs, fmt.Sprintf("ToExtended(%v) = %v, %v", sp, gotEx, err))
	if err != nil {
		c.Fail("notation-error", nil, "ConvertSpatialIdsToExtendedSpatialIds(%v) returned error %v", sp, err)
		return
	}
	if len(gotEx) != len(ex) {
		c.Fail("notation-length", nil, "ConvertSpatialIdsToExtendedSpatialIds: %d inputs, %d outputs", len(sp), len(gotEx))
		return
	}
	for i := range ex {
		if gotEx[i] != ex[i] {
			c.Fail("notation-permutation", nil, "ConvertSpatialIdsToExtendedSpatialIds: element %d: %q -> %q, want %q", i, sp[i], gotEx[i], ex[i])
			return
		}
	}
	back, err := shape.ConvertExtendedSpatialIdsToSpatialIds(gotEx)
	c.Call()
	if err != nil || len(back) != len(sp) {
		c.Fail("notation-roundtrip", nil, "spatial->extended->spatial: %v, err %v", back, err)
		return
	}
	for i := range sp {
		if back[i] != sp[i] {
			c.Fail("notation-roundtrip", nil, "spatial->extended->spatial: element %d: %q came back as %q", i, sp[i], back[i])
			return
		}
	}
	// extended -> spatial -> extended on general extended IDs? the spatial notation has one zoom, so the identity is stated for h == v lists
	gotSp, err := shape.ConvertExtendedSpatialIdsToSpatialIds(ex)
	c.Call()
	if err != nil || len(gotSp) != len(sp) {
		c.Fail("notation-error", nil, "ConvertExtendedSpatialIdsToSpatialIds(%v) = %v, %v", ex, gotSp, err)
		return
	}
	for i := range sp {
		if gotSp[i] != sp[i] {
			c.Fail("notation-permutation", nil, "ConvertExtendedSpatialIdsToSpatialIds: element %d: %q -> %q, want %q", i, ex[i], gotSp[i], sp[i])
			return
		}
	}
	back2, err := shape.ConvertSpatialIdsToExtendedSpatialIds(gotSp)
	c.Call()
	if err != nil || !sameStrings(back2, ex) && len(ex) > 0 {
		c.Fail("notation-roundtrip", nil, "extended->spatial->extended: %v came back as %v (err %v)", ex, back2, err)
		return
	}
	if !sameStrings(sp, spCopy) || !sameStrings(ex, exCopy) {
		c.Fail("input-modified", nil, "a notation converter modified its input slice")
		return
	}

	// numerals spelled in a non-canonical way the integer parser accepts ("+5", "007", zero padding): the converted ID
	// must still name the same voxel (its spelling is not prescribed)
	if len(sq) > 0 && len(sq) <= 10 && r.P(0.15) {
		k := r.Intn(len(sq))
		rs, re := respell(r, sp[k]), respell(r, ex[k])
		g1, e1 := shape.ConvertSpatialIdsToExtendedSpatialIds([]string{rs})
		g2, e2 := shape.ConvertExtendedSpatialIdsToSpatialIds([]string{re})
		c.Calls(2)
		c.Tag("respelled-numerals")
		if e1 != nil || len(g1) != 1 {
			c.Fail("notation-respelled", nil, "ConvertSpatialIdsToExtendedSpatialIds([%q]) = %v, %v", rs, g1, e1)
			return
		}
		if a, ok := looseExt(g1[0]); !ok || a != sq[k] {
			c.Fail("notation-respelled", nil, "ConvertSpatialIdsToExtendedSpatialIds([%q]) = %q, which is not the voxel %s", rs, g1[0], ex[k])
			return
		}
		if e2 != nil || len(g2) != 1 {
			c.Fail("notation-respelled", nil, "ConvertExtendedSpatialIdsToSpatialIds([%q]) = %v, %v", re, g2, e2)
			return
		}
		if a, ok := looseSpatial(g2[0]); !ok || a != sq[k] {
			c.Fail("notation-respelled", nil, "ConvertExtendedSpatialIdsToSpatialIds([%q]) = %q, which is not the voxel %s", re, g2[0], sp[k])
			return
		}
	}
	// object parse / print
	o, err := object.NewExtendedSpatialID(es)
	c.Call()
	if err != nil {
		c.Fail("object-parse", nil, "NewExtendedSpatialID(%q) returned error %v", es, err)
		return
	}
	fp := o.FieldParams()
	obs = append(obs, fmt.Sprintf("NewExtendedSpatialID(%s): ID()=%s FieldParams=%v", es, o.ID(), fp))
	if o.ID() != es {
		c.Fail("object-print", nil, "NewExtendedSpatialID(%q).ID() = %q", es, o.ID())
		return
	}
	want := []int64{e.H, e.X, e.Y, e.V, e.F}
	if len(fp) != 5 {
		c.Fail("object-fields", nil, "FieldParams() has %d entries", len(fp))
		return
	}
	for i := range want {
		if fp[i] != want[i] {
			c.Fail("object-fields", nil, "FieldParams() = %v, want %v", fp, want)
			return
		}
	}
	if o.HZoom() != e.H || o.X() != e.X || o.Y() != e.Y || o.VZoom() != e.V || o.Z() != e.F {
		c.Fail("object-getters", nil, "getters (%d,%d,%d,%d,%d) disagree with %q", o.HZoom(), o.X(), o.Y(), o.VZoom(), o.Z(), es)
		return
	}
	// Reset on an existing object replaces every field
	if len(ex) > 0 {
		if err := o.ResetExtendedSpatialID(ex[0]); err != nil || o.ID() != ex[0] {
			c.Fail("object-reset", nil, "ResetExtendedSpatialID(%q) -> ID() %q, err %v", ex[0], o.ID(), err)
			return
		}
		// while the first object holds another ID, parsing the same string again gives a fresh, independent object
		o2, err2 := object.NewExtendedSpatialID(es)
		c.Call()
		if err2 != nil || o2.ID() != es || o2 == o {
			c.Fail("object-parse-after-edit", nil, "NewExtendedSpatialID(%q) after the first object parsed from it was reset to %q: ID() %q, err %v, same object %v", es, ex[0], o2.ID(), err2, o2 == o)
			return
		}
		o2.SetX(o2.X() + 1)
		o.ResetExtendedSpatialID(es)
		if o.ID() != es {
			c.Fail("object-reset", nil, "object reset to %q prints %q after a second object parsed from the same string was edited", es, o.ID())
			return
		}
	}
	vid := transform.GetVoxelIDfromSpatialID(es)
	c.Call()
	if len(vid) != 3 || vid[0] != e.X || vid[1] != e.Y || vid[2] != e.F {
		c.Fail("voxel-id", nil, "GetVoxelIDfromSpatialID(%q) = %v, want [%d %d %d]", es, vid, e.X, e.Y, e.F)
		return
	}

	// object reuse: the same object first holds another ID (whose expansion is large), is expanded, and is then
	// reset to the judged ID; the judged expansion must follow the object's current content
	if r.P(0.2) {
		other := genID(r, 0, 31, 0, 31)
		if r.Bool() {
			other.V = clampI(other.H+r.Range(3, 4), 0, 35)
			other.F = edgeF(r, other.V)
		} else {
			other.H = clampI(other.V+r.Range(3, 4), 0, 35)
			other.X, other.Y = edgeIndex(r, pow2(other.H)), edgeIndex(r, pow2(other.H))
		}
		if e := o.ResetExtendedSpatialID(other.Ext()); e != nil {
			c.Fail("object-reset", nil, "ResetExtendedSpatialID(%q): %v", other.Ext(), e)
			return
		}
		_ = transform.ConvertExtendedSpatialIDToSpatialIDs(o)
		c.Call()
		if r.Bool() {
			o.ResetExtendedSpatialID(es)
		} else {
			o.SetZoom(e.H, e.V)
			o.SetX(e.X)
			o.SetY(e.Y)
			o.SetZ(e.F)
		}
		c.Tag("reused-object")
	}
	// expansion into spatial IDs at max(h,v)
	exp := transform.ConvertExtendedSpatialIDToSpatialIDs(o)
	c.Call()
	obs = append(obs, fmt.Sprintf("ConvertExtendedSpatialIDToSpatialIDs(%s) = %v", es, trunc(exp, 20)))
	if o.ID() != es {
		c.Fail("input-modified", nil, "ConvertExtendedSpatialIDToSpatialIDs modified its argument: now %q", o.ID())
		return
	}
	z := e.H
	if e.V > z {
		z = e.V
	}
	wantExp := map[string]struct{}{}
	for _, d := range ref.ChangeOne(e, z, z) {
		wantExp[d.Spatial()] = struct{}{}
	}
	gs, dup := ref.SetOfExt(exp)
	if dup {
		c.Fail("expansion-duplicates", nil, "expansion of %s contains an ID twice", es)
		return
	}
	if missing, extra, same := ref.SameSet(gs, wantExp); !same {
		c.Fail("expansion-set", nil, "ConvertExtendedSpatialIDToSpatialIDs(%s): missing %v, unexpected %v", es, missing, extra)
		return
	}
	d := e.H - e.V
	wantCount := int64(1)
	if d > 0 {
		wantCount = pow2(d)
		c.Tag("expand-vertical")
	} else if d < 0 {
		wantCount = pow2(-2 * d)
		c.Tag("expand-horizontal")
	} else {
		c.Tag("expand-none")
	}
	if int64(len(exp)) != wantCount {
		c.Fail("expansion-count", nil, "expansion of %s has %d IDs, want %d", es, len(exp), wantCount)
	}
}
