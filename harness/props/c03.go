package props

import (
	"fmt"
	"strconv"
	"strings"

	"github.com/trajectoryjp/spatial_id_go/v4/integrate"

	"verifmon/core"
	"verifmon/ref"
)

// C03 — changing zoom yields exactly the voxels that refine or contain the input.

// exhaustive sub-scope (thorough): every ID with h <= 3, v <= 2 against every target H,V <= 5.
var c03Small []ref.ID

func c03SmallIDs() []ref.ID {
	if c03Small != nil {
		return c03Small
	}
	for h := int64(0); h <= 3; h++ {
		for v := int64(0); v <= 2; v++ {
			for x := int64(0); x < pow2(h); x++ {
				for y := int64(0); y < pow2(h); y++ {
					for f := -pow2(v); f < pow2(v); f++ {
						c03Small = append(c03Small, ref.ID{H: h, X: x, Y: y, V: v, F: f})
					}
				}
			}
		}
	}
	return c03Small
}

func c03Directed(tier string) int64 {
	if tier == "thorough" {
		return int64(len(c03SmallIDs())) * 36
	}
	return 0
}

func init() {
	core.Register(&core.Monitor{
		ID:        "C03",
		Technique: "reference-model monitor (integer dyadic boxes): set equality, duplicate-freeness, region containment + concurrent scenarios (4-64 goroutines issuing the same judged calls at once) + hostile scheduler widths",
		Rule: "per case: a list of 1-6 valid IDs (mixed zooms, nested/duplicated entries, f of both signs with emphasis on -1, -2^k, -2^k+-1) and target zooms within +-3 " +
			"levels (any distance when coarser); extended and single-zoom API plus HorizontalZoom/HorizontalZoomMinMax/VerticalZoom per axis. Oracle: descendants (finer) / floor ancestor (coarser) per axis, " +
			"union over inputs, compared as sets; len == |set|; region(result) >= region(input), equal when refining. Non-trivial = some axis of some input changes zoom; distinct by (list, targets).",
		Assume: []string{"reference: x>>d, y>>d, f>>d (arithmetic shift = floor) and [i<<d, (i+1)<<d)", "zoom-in bounded to 3 levels per axis (4^3*2^3 IDs per input) for cost"},
		N:      func(t string) int64 { return c03Directed(t) + tierN(150_000, 3_000_000)(t) },
		Floor:  tierN(1000, 10000),
		Run:    runC03,
		Exhaustive: func(t string) []string {
			if t == "thorough" {
				return []string{fmt.Sprintf("all %d IDs with h<=3,v<=2 x all targets H,V<=5", len(c03SmallIDs()))}
			}
			return nil
		},
	})
}

func runC03(c *core.Case) {
	r := c.R
	var ids []ref.ID
	var H, V int64
	if d := c03Directed(c.Tier); c.I >= d && hammerWanted(c, d) {
		c03Hammer(c, d)
		return
	}
	if d := c03Directed(c.Tier); c.I < d {
		small := c03SmallIDs()
		ids = []ref.ID{small[c.I/36]}
		H, V = (c.I%36)/6, c.I%6
		c.Tag("exhaustive-small")
	} else {
		base := genID(r, 0, 35, 0, 35)
		n := 1 + r.Intn(6)
		if r.P(0.3) {
			n = 1
		}
		ids = append(ids, base)
		for len(ids) < n {
			switch r.Intn(6) {
			case 0: // duplicate
				ids = append(ids, ids[r.Intn(len(ids))])
			case 1: // descendant of base (nested)
				ids = append(ids, descendant(r, base, clampI(base.H+r.Range(0, 2), 0, 35), clampI(base.V+r.Range(0, 2), 0, 35)))
			case 2: // ancestor of base
				ids = append(ids, ancestor(base, clampI(base.H-r.Range(0, 2), 0, 35), clampI(base.V-r.Range(0, 2), 0, 35)))
			case 3: // vertical neighbour across the sign change
				nb := base
				nb.F = clampI(-base.F-1, -pow2(base.V), pow2(base.V)-1)
				ids = append(ids, nb)
			default: // unrelated ID at nearby zooms
				ids = append(ids, genID(r, clampI(base.H-2, 0, 35), clampI(base.H+2, 0, 35), clampI(base.V-2, 0, 35), clampI(base.V+2, 0, 35)))
			}
		}
		if r.P(0.05) { // a voxel with f = 0 next to a finer one just below ground on the same footprint (not nested)
			P, ch := truncAliasPair(r)
			if r.P(0.7) {
				ids = append(ids, P, ch)
			} else {
				ids = append(ids, ch, P)
			}
			if r.P(0.5) {
				ids = ids[len(ids)-2:]
			}
			c.Tag("f=0-then-finer-f<0-same-footprint")
		}
		// targets: at most 3 levels finer than the coarsest input on each axis (bounded blow-up), any amount coarser
		minH, minV := int64(35), int64(35)
		for _, a := range ids {
			if a.H < minH {
				minH = a.H
			}
			if a.V < minV {
				minV = a.V
			}
		}
		pick := func(min int64) int64 {
			switch r.Intn(5) {
			case 0:
				return r.Range(0, min) // coarser by any amount
			case 1:
				return min
			}
			return clampI(min+r.Range(-3, 3), 0, 35)
		}
		H, V = pick(minH), pick(minV)
	}
	veryLong := c.I >= c03Directed(c.Tier) && (r.P(0.0002) || (c.Tier == "thorough" && r.P(0.0002)))
	if veryLong {
		// very long list (2^15 .. 2^17 + 3 IDs) at one zoom pair, targets equal or one level coarser (no expansion); a
		// duplicate and a child of the first ID sit far from it, the last few IDs are distinct from everything else
		z := genID(r, 4, 30, 4, 30)
		n := veryLongLen(r)
		ids = ids[:0]
		for len(ids) < n {
			ids = append(ids, genID(r, z.H, z.H, z.V, z.V))
		}
		ids[n/2+7] = ids[0]
		ids[n-2] = ids[1]
		H, V = z.H-int64(r.Intn(2)), z.V-int64(r.Intn(2))
		c.Tag("very-long-list")
		c.Procs()
	}
	in := ref.Exts(ids)
	respelled := false
	if !veryLong && c.I >= c03Directed(c.Tier) && r.P(0.04) {
		// numerals spelled in a non-canonical way the integer parser accepts ("+5", "007", "-0"): still the same voxels
		k := r.Intn(len(in))
		in[k] = respell(r, in[k])
		if r.Bool() {
			in = append(in, ids[k].Ext()) // and the canonical spelling of the same voxel
			ids = append(ids, ids[k])
		}
		respelled = true
		c.Tag("respelled-numerals")
	}
	inCopy := copyStrings(in)
	var got []string
	var err error
	c.Desc = func() any {
		return map[string]any{"ids": in, "hZoom": H, "vZoom": V, "result": trunc(got, 40), "error": fmt.Sprint(err)}
	}
	keyStrings(c, in)
	c.KI(H, V)
	changes := false
	for _, a := range ids {
		if a.H != H || a.V != V {
			changes = true
		}
		if a.V > V && a.F < 0 {
			c.Tag("zoomout-negative-f")
		}
		if a.V > V {
			c.Tag("v-out")
		} else if a.V < V {
			c.Tag("v-in")
		}
		if a.H > H {
			c.Tag("h-out")
		} else if a.H < H {
			c.Tag("h-in")
		}
	}
	if changes {
		c.NonTrivial()
	}

	if c.I >= c03Directed(c.Tier) && r.P(0.08) {
		// poison: a call that fails on a malformed ID after a valid prefix that has already expanded to > 1000 voxels;
		// whatever it leaves behind (pooled buffers, caches) must not show in the judged call that follows
		pz := genID(r, 0, 30, 0, 30)
		prefix := []string{pz.Ext(), ref.Shift(pz, 1, 0, 0).Ext(), ref.Shift(pz, 0, 1, 1).Ext()}
		_, perr := integrate.ChangeExtendedSpatialIdsZoom(malformedAfter(r, prefix), pz.H+3, pz.V+3)
		c.Call()
		if perr == nil {
			c.Fail("change-missing-error", nil, "a list ending in a malformed ID was accepted")
			return
		}
		c.Tag("after-failed-call")
	}
	got, err = integrate.ChangeExtendedSpatialIdsZoom(in, H, V)
	c.Call()
	if err != nil {
		c.Fail("change-error", nil, "ChangeExtendedSpatialIdsZoom(%v,%d,%d) returned error %v on valid input", in, H, V, err)
		return
	}
	if !sameStrings(in, inCopy) {
		c.Fail("input-modified", nil, "input slice modified")
		return
	}
	want := ref.ExtSet(ref.Change(ids, H, V))
	gotSet, dup := ref.SetOfExt(got)
	if dup {
		c.Fail("change-duplicates", nil, "result of ChangeExtendedSpatialIdsZoom(%v,%d,%d) contains an ID twice (len %d, distinct %d)", in, H, V, len(got), len(gotSet))
		return
	}
	if missing, extra, same := ref.SameSet(gotSet, want); !same {
		cls := "change-set"
		for _, a := range ids {
			if a.V > V && a.F < 0 {
				cls = "change-set-zoomout-negative-f"
			}
		}
		c.Fail(cls, map[string]any{"missing": missing, "extra": extra}, "ChangeExtendedSpatialIdsZoom(%v,%d,%d): missing %v, unexpected %v", in, H, V, missing, extra)
		return
	}
	// every element at the requested zooms (independent of the set comparison: parse what was returned)
	for _, s := range got {
		a, e := ref.ParseExt(s)
		if e != nil || a.H != H || a.V != V {
			c.Fail("change-zoom-field", nil, "result element %q is not a canonical ID at zooms (%d,%d)", s, H, V)
			return
		}
	}
	// region statement, checked independently by canonicalisation at a common fine zoom
	if out, e := parseAll(got); e == nil && !veryLong {
		fh, fv := ref.MaxZooms(ids, out)
		if rin, ok := ref.Region(ids, fh, fv, 6000); ok {
			if rout, ok2 := ref.Region(out, fh, fv, 12000); ok2 {
				for cell := range rin {
					if _, ok := rout[cell]; !ok {
						c.Fail("change-region", nil, "cell %v of the input region (at zooms %d,%d) is not covered by the result", cell, fh, fv)
						return
					}
				}
				refine := true
				for _, a := range ids {
					if a.H > H || a.V > V {
						refine = false
					}
				}
				if refine && len(rin) != len(rout) {
					c.Fail("change-region", nil, "refinement changed the region: %d unit cells in, %d out", len(rin), len(rout))
					return
				}
				c.Tag("region-checked")
			}
		}
	}

	// single-zoom API on the inputs that have h == v, target zoom H
	var sp []ref.ID
	for _, a := range ids {
		if a.H == a.V && a.H-H >= -3 {
			sp = append(sp, a)
		}
	}
	if len(sp) > 0 && !respelled && !veryLong {
		spIn := ref.Spatials(sp)
		spGot, e := integrate.ChangeSpatialIdsZoom(spIn, H)
		c.Call()
		if e != nil {
			c.Fail("change-error", nil, "ChangeSpatialIdsZoom(%v,%d) returned error %v", spIn, H, e)
			return
		}
		wantSp := map[string]struct{}{}
		for a := range ref.Change(sp, H, H) {
			wantSp[a.Spatial()] = struct{}{}
		}
		gs, dup := ref.SetOfExt(spGot)
		if dup {
			c.Fail("change-duplicates", nil, "ChangeSpatialIdsZoom(%v,%d) result contains an ID twice", spIn, H)
			return
		}
		if missing, extra, same := ref.SameSet(gs, wantSp); !same {
			c.Fail("change-set-spatial", nil, "ChangeSpatialIdsZoom(%v,%d): missing %v, unexpected %v", spIn, H, missing, extra)
			return
		}
		c.Tag("spatial-form")
	}

	// per-axis helpers on the first input
	a := ids[0]
	if H-a.H <= 3 {
		hs := integrate.HorizontalZoom(a.H, a.X, a.Y, H)
		x0, y0, x1, y1 := integrate.HorizontalZoomMinMax(a.H, a.X, a.Y, H)
		c.Calls(2)
		rx, ry := ref.AxisChange(a.X, a.H, H), ref.AxisChange(a.Y, a.H, H)
		if x0 != rx.Lo || x1 != rx.Hi || y0 != ry.Lo || y1 != ry.Hi {
			c.Fail("hzoom-minmax", nil, "HorizontalZoomMinMax(%d,%d,%d,%d) = (%d,%d,%d,%d), want x %v y %v", a.H, a.X, a.Y, H, x0, y0, x1, y1, rx, ry)
			return
		}
		wantH := map[string]struct{}{}
		for x := rx.Lo; x <= rx.Hi; x++ {
			for y := ry.Lo; y <= ry.Hi; y++ {
				wantH[strconv.FormatInt(H, 10)+"/"+strconv.FormatInt(x, 10)+"/"+strconv.FormatInt(y, 10)] = struct{}{}
			}
		}
		gs, dup := ref.SetOfExt(hs)
		if _, _, same := ref.SameSet(gs, wantH); !same || dup {
			c.Fail("hzoom-set", nil, "HorizontalZoom(%d,%d,%d,%d) = %v", a.H, a.X, a.Y, H, trunc(hs, 20))
			return
		}
	}
	if V-a.V <= 6 {
		vs := integrate.VerticalZoom(a.V, a.F, V)
		c.Call()
		rf := ref.AxisChange(a.F, a.V, V)
		wantV := map[string]struct{}{}
		for f := rf.Lo; f <= rf.Hi; f++ {
			wantV[strconv.FormatInt(V, 10)+"/"+strconv.FormatInt(f, 10)] = struct{}{}
		}
		gs, dup := ref.SetOfExt(vs)
		if _, _, same := ref.SameSet(gs, wantV); !same || dup {
			cls := "vzoom-set"
			if a.F < 0 && V < a.V {
				cls = "vzoom-set-zoomout-negative-f"
			}
			c.Fail(cls, nil, "VerticalZoom(%d,%d,%d) = %v, want indices %d..%d", a.V, a.F, V, trunc(vs, 20), rf.Lo, rf.Hi)
			return
		}
	}
}

func parseAll(l []string) ([]ref.ID, error) {
	out := make([]ref.ID, 0, len(l))
	for _, s := range l {
		a, err := ref.ParseExt(s)
		if err != nil {
			return nil, err
		}
		out = append(out, a)
	}
	return out, nil
}

var _ = strings.Join
