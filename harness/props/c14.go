package props

import (
	"fmt"
	"math"

	"github.com/go-gl/mathgl/mgl64"
	closest "github.com/trajectoryjp/closest_go"
	geodesy "github.com/trajectoryjp/geodesy_go/coordinates"
	"github.com/trajectoryjp/spatial_id_go/v4/common/enum"
	"github.com/trajectoryjp/spatial_id_go/v4/common/object"
	"github.com/trajectoryjp/spatial_id_go/v4/operated"
	"github.com/trajectoryjp/spatial_id_go/v4/shape"
	"github.com/trajectoryjp/spatial_id_go/v4/transform"

	"verifmon/core"
	"verifmon/ref"
)

// C14 — the corridor around a line contains the line and stays within its search box.
func init() {
	core.Register(&core.Monitor{
		ID:        "C14",
		Technique: "geometric invariant monitor: relations to the line, clearance-fit and N-layer queries on the same arguments + independent WGS84 chord-to-footprint distance (one-sided)",
		Rule: "per case: horizontal zoom 2..35, vertical zoom 0..35 (60% of the cases from a palette of 12 zoom pairs so that (zoom, radius) combinations recur inside one worker process at different latitudes), " +
			"a segment of 0-5 voxel widths (generator of C06 incl. single-voxel lines and identical ends), radius 0 or u*W with u from a discrete palette and W bounded by 2.5 widths of the narrowest voxel touched (0.45 for h <= 4, " +
			"where the layer fit would not terminate otherwise); both values of the skip flag on the same arguments. Oracle: duplicate-free, all IDs at the requested zooms, contains every line ID, equals the line for radius 0; " +
			"skip=true result equals line + N-layer box for the layer counts the clearance fit reports for some voxel of the line; skip=false result is a subset of it and every added voxel's corner hull is within r(1+1e-4)+1e-6 m of the chord (WGS84 ECEF); " +
			"negative radius and invalid zoom are errors. Non-trivial = radius > 0; distinct by (points, zooms, radius).",
		Assume: []string{"distance oracle is one-sided (the library's GJK distance over-estimates, so it may exclude close voxels; it must never include a far one)",
			"independent ECEF conversion (a=6378137, 1/f=298.257223563); tolerance 1e-4 relative absorbs the library's use of latitude as ellipsoidal height (<= 85 m)"},
		N:       tierN(20_000, 600_000),
		Batch:   func(t string) int64 { return tierN(20_000, 600_000)(t)/32 + 1 },
		Timeout: func(t string) int { return map[string]int{"quick": 900, "thorough": 3000}[t] },
		Floor:   tierN(50, 1000),
		Run:     runC14,
	})
}

var c14Zooms = [][2]int64{{20, 20}, {18, 25}, {25, 25}, {22, 10}, {16, 16}, {30, 30}, {12, 20}, {26, 26}, {35, 35}, {8, 8}, {5, 14}, {24, 30}}

// c14Huge: a corridor whose search box holds more than 2^21 candidate voxels (a line of ~19000 voxels at zooms 20/20,
// radius 40 m, skip mode): duplicate-free, contains the line, equals line + N-layer box (thorough tier only).
func c14Huge(c *core.Case) {
	a, _ := object.NewPoint(139.0+float64(c.I), 35.0, 10)
	b, _ := object.NewPoint(139.0+float64(c.I)+6.6, 35.0+0.35, 400)
	const h, v, rad = 20, 20, 40.0
	c.Tag("huge-corridor")
	c.NonTrivial()
	c.KI(c.I)
	var obs []string
	c.Desc = func() any { return map[string]any{"scenario": "corridor with > 2^21 candidates", "observed": obs} }
	line, err := shape.GetExtendedSpatialIdsOnLine(a, b, h, v)
	if err != nil {
		c.Fail("line-error", nil, "%v", err)
		return
	}
	got, err := transform.GetExtendedSpatialIdsWithinRadiusOfLine(a, b, rad, h, v, true)
	c.Calls(2)
	if err != nil {
		c.Fail("corridor-error", nil, "huge corridor returned %v", err)
		return
	}
	gs, dup := ref.SetOfExt(got)
	obs = append(obs, fmt.Sprintf("line %d voxels, corridor %d IDs (%d distinct)", len(line), len(got), len(gs)))
	if dup {
		c.Fail("corridor-duplicates", nil, "corridor over a line of %d voxels returned %d IDs but only %d distinct", len(line), len(got), len(gs))
		return
	}
	for _, s := range line {
		if _, ok := gs[s]; !ok {
			c.Fail("corridor-misses-line", nil, "huge corridor does not contain line voxel %s", s)
			return
		}
	}
	st, _ := shape.GetExtendedSpatialIdsOnPoints([]*object.Point{a}, h, v)
	hl, vl, err := transform.FitClearanceAroundExtendedSpatialID(st[0], rad)
	if err != nil {
		c.Fail("fit-error", nil, "%v", err)
		return
	}
	c.Calls(2)
	lineIDs, perr := parseAll(line)
	if perr != nil {
		c.Fail("line-malformed", nil, "line result contains a malformed ID: %v", perr)
		return
	}
	want := wantStencil(lineIDs, stencilBox(hl, vl)) // reference model of the N-layer box
	for _, s := range line {
		want[s] = struct{}{}
	}
	obs = append(obs, fmt.Sprintf("layers (%d,%d), box+line %d IDs, candidates %d", hl, vl, len(want), int64(len(line))*(2*hl+1)*(2*hl+1)*(2*vl+1)))
	if missing, extra, same := ref.SameSet(gs, want); !same {
		c.Fail("corridor-search-box", nil, "huge corridor differs from line + box for layers (%d,%d): missing %v, beyond %v", hl, vl, missing, extra)
	}
}

func runC14(c *core.Case) {
	if c.Tier == "thorough" && c.I < 2 {
		c14Huge(c)
		return
	}
	r := c.R
	var h, v int64
	if r.P(0.6) {
		z := c14Zooms[r.Intn(len(c14Zooms))]
		h, v = z[0], z[1]
	} else {
		h, v = r.Range(2, 35), genZoom(r)
	}
	pa, pb, kind := genSegment(r, h, v, 5)
	if kind == "span-columns" || kind == "span-rows" {
		pb = pa
		pb.alt += math.Ldexp(1, int(25-v)) * r.Uniform(-2, 2)
		pb.alt = math.Max(-(1 << 25), math.Min(1<<25, pb.alt))
	}
	// metric width of the narrowest voxel the segment can touch: at the pole-ward end plus one row
	wEq := 2 * math.Pi * ref.EarthR / math.Ldexp(1, int(h))
	latMax := math.Min(ref.MaxLat, math.Max(math.Abs(pa.lat), math.Abs(pb.lat))+360/math.Ldexp(1, int(h)))
	wMin := wEq * math.Cos(latMax*math.Pi/180)
	limit := 2.5
	if h <= 4 {
		limit = 0.45
	}
	// radius from a discrete palette u*wEq*2^-k with the smallest k that respects the limit (+ random extra halvings)
	u := []float64{0.1, 0.2, 0.4, 0.8, 1.6}[r.Intn(5)]
	wide := h >= 6 && r.P(0.12)
	if wide { // wide corridors: 3 to 6.5 voxel widths (5 to 7 layers), where "inner layers need no measurement" shortcuts would start
		limit = 6.5
		u = []float64{3.1, 4.1, 4.2, 5.3, 6.2, 4.05}[r.Intn(6)]
		c.Tag("radius-3-to-6.5-widths")
	}
	rad := u * wEq
	for rad > limit*wMin {
		rad /= 2
	}
	for k := r.Intn(3); k > 0 && !wide; k-- {
		rad /= 2
	}
	if r.P(0.12) {
		rad = 0
	}
	a, e1 := object.NewPoint(pa.lon, pa.lat, pa.alt)
	b, e2 := object.NewPoint(pb.lon, pb.lat, pb.alt)
	if e1 != nil || e2 != nil {
		c.Fail("point-constructor", nil, "NewPoint refused an in-domain point")
		return
	}
	if rad > 0 && r.P(0.04) {
		// threshold radius: the largest radius (to 1e-13 relative) for which the clearance fit of the start voxel still
		// reports its current horizontal layer count; found by bisection on the public fit function
		if sv, e := shape.GetExtendedSpatialIdsOnPoints([]*object.Point{a}, h, v); e == nil {
			if n0, _, e0 := transform.FitClearanceAroundExtendedSpatialID(sv[0], rad); e0 == nil {
				hi := rad
				found := false
				for k := 0; k < 12 && hi*1.25 <= limit*wMin; k++ {
					hi *= 1.25
					if n1, _, e1 := transform.FitClearanceAroundExtendedSpatialID(sv[0], hi); e1 == nil && n1 > n0 {
						found = true
						break
					}
				}
				if found {
					lo := rad
					// every evaluation is preceded by a fit of another voxel with another clearance, so that each one is
					// answered on its own (a "same request as last time" shortcut cannot steer the bisection)
					other := operated.GetShiftingSpatialID(sv[0], 3, 1, 0)
					flush := func() { transform.FitClearanceAroundExtendedSpatialID(other, rad*0.37) }
					for k := 0; k < 60 && (hi-lo) > 1e-13*hi; k++ {
						mid := lo + (hi-lo)/2
						flush()
						if n1, _, e1 := transform.FitClearanceAroundExtendedSpatialID(sv[0], mid); e1 == nil && n1 > n0 {
							hi = mid
						} else {
							lo = mid
						}
						c.Calls(2)
					}
					// lo and hi are now a few ulps apart and on opposite sides of a layer threshold: asked one right
					// after the other (both orders), each must get the answer it gets on its own
					flush()
					xl, xv, _ := transform.FitClearanceAroundExtendedSpatialID(sv[0], lo)
					flush()
					yl, yv, _ := transform.FitClearanceAroundExtendedSpatialID(sv[0], hi)
					zl, zv, _ := transform.FitClearanceAroundExtendedSpatialID(sv[0], lo)
					wl, wv, _ := transform.FitClearanceAroundExtendedSpatialID(sv[0], hi)
					c.Calls(6)
					if zl != xl || zv != xv || wl != yl || wv != yv {
						c.Fail("fit-history-dependent", nil, "FitClearanceAroundExtendedSpatialID(%s, c): c=%.17g gives (%d,%d) on its own and (%d,%d) right after c=%.17g; c=%.17g gives (%d,%d) on its own and (%d,%d) right after c=%.17g",
							sv[0], lo, xl, xv, zl, zv, hi, hi, yl, yv, wl, wv, lo)
						return
					}
					if xl > yl {
						c.Fail("fit-not-monotone", nil, "FitClearanceAroundExtendedSpatialID(%s, c): %d layers for c=%.17g but %d for the larger c=%.17g", sv[0], xl, lo, yl, hi)
						return
					}
					rad = lo
					c.Tag("threshold-radius")
				}
			}
		}
	}
	var obs []string
	c.Desc = func() any {
		return map[string]any{"start": fmt.Sprintf("(%.17g, %.17g, %.17g)", pa.lon, pa.lat, pa.alt), "end": fmt.Sprintf("(%.17g, %.17g, %.17g)", pb.lon, pb.lat, pb.alt),
			"radius": rad, "hZoom": h, "vZoom": v, "observed": obs}
	}
	c.KF(pa.lon, pa.lat, pa.alt, pb.lon, pb.lat, pb.alt, rad)
	c.KI(h, v)
	if rad > 0 {
		c.NonTrivial()
	} else {
		c.Tag("radius-0")
	}
	if r.P(0.05) { // error clause of the property: negative radius or invalid zoom
		br, bh, bv := rad, h, v
		switch r.Intn(3) {
		case 0:
			br = -math.Max(rad, 1e-9)
		case 1:
			bh = []int64{-1, 36, 40}[r.Intn(3)]
		default:
			bv = []int64{-1, 36, 40}[r.Intn(3)]
		}
		res, e := transform.GetExtendedSpatialIdsWithinRadiusOfLine(a, b, br, bh, bv, r.Bool())
		c.Call()
		c.Tag("error-clause")
		if e == nil {
			c.Fail("corridor-missing-error", nil, "corridor with radius %v, zooms (%d,%d) returned %d IDs and no error", br, bh, bv, len(res))
			return
		}
	}
	line, err := shape.GetExtendedSpatialIdsOnLine(a, b, h, v)
	c.Call()
	if err != nil {
		c.Fail("line-error", nil, "line query failed: %v", err)
		return
	}
	lineSet, _ := ref.SetOfExt(line)
	if len(lineSet) == 1 {
		c.Tag("single-voxel-line")
	}
	withSkip, err := transform.GetExtendedSpatialIdsWithinRadiusOfLine(a, b, rad, h, v, true)
	c.Call()
	if err != nil {
		c.Fail("corridor-error", nil, "corridor(skip=true) returned %v on valid input", err)
		return
	}
	measured, err := transform.GetExtendedSpatialIdsWithinRadiusOfLine(a, b, rad, h, v, false)
	c.Call()
	if err != nil {
		c.Fail("corridor-error", nil, "corridor(skip=false) returned %v on valid input", err)
		return
	}
	obs = append(obs, fmt.Sprintf("line %d IDs, corridor skip=true %d IDs, skip=false %d IDs", len(line), len(withSkip), len(measured)))
	c.Obs("corridor_ids_skip", float64(len(withSkip)))
	c.Obs("corridor_ids_measured", float64(len(measured)))
	sSet, dupS := ref.SetOfExt(withSkip)
	mSet, dupM := ref.SetOfExt(measured)
	if dupS || dupM {
		c.Fail("corridor-duplicates", nil, "corridor result contains an ID twice (skip=true: %v, skip=false: %v)", dupS, dupM)
		return
	}
	for name, set := range map[string]map[string]struct{}{"skip=true": sSet, "skip=false": mSet} {
		for s := range set {
			x, e := ref.ParseExt(s)
			if e != nil || x.H != h || x.V != v {
				c.Fail("corridor-zoom", nil, "corridor(%s) contains %q, not an ID at zooms (%d,%d)", name, s, h, v)
				return
			}
		}
		for s := range lineSet {
			if _, ok := set[s]; !ok {
				c.Fail("corridor-misses-line", nil, "corridor(%s) does not contain line voxel %s", name, s)
				return
			}
		}
	}
	if rad == 0 {
		if _, _, same := ref.SameSet(sSet, lineSet); !same {
			c.Fail("corridor-radius-0", nil, "radius 0, skip=true: %d IDs, the line has %d", len(sSet), len(lineSet))
			return
		}
		if _, _, same := ref.SameSet(mSet, lineSet); !same {
			c.Fail("corridor-radius-0", nil, "radius 0, skip=false: %d IDs, the line has %d", len(mSet), len(lineSet))
		}
		return
	}
	// search box: layer counts reported by the clearance fit for voxels of the line (the two end voxels first, then
	// others, capped at 8 fits for cost; the fit is not exactly symmetric along a row, so rows are not merged)
	type layers struct{ h, v int64 }
	admissible := map[layers]string{}
	ends, _ := shape.GetExtendedSpatialIdsOnPoints([]*object.Point{a, b}, h, v)
	c.Call()
	cand := append([]string{}, ends...)
	cand = append(cand, line...)
	fitted := map[string]bool{}
	for _, x := range cand {
		if fitted[x] || len(fitted) >= 8 {
			continue
		}
		fitted[x] = true
		hl, vl, e := transform.FitClearanceAroundExtendedSpatialID(x, rad)
		c.Call()
		if e != nil {
			c.Fail("fit-error", nil, "FitClearanceAroundExtendedSpatialID(%s,%v) returned %v", x, rad, e)
			return
		}
		if _, ok := admissible[layers{hl, vl}]; !ok {
			admissible[layers{hl, vl}] = x
		}
	}
	matched := false
	var detail []string
	for l, from := range admissible {
		// the N-layer box of the line from the reference model (modular shifts), not from the library's own N-layer query
		lineIDs, perr := parseAll(line)
		if perr != nil {
			c.Fail("line-malformed", nil, "line result contains a malformed ID: %v", perr)
			return
		}
		want := wantStencil(lineIDs, stencilBox(l.h, l.v))
		for s := range lineSet {
			want[s] = struct{}{}
		}
		missing, extra, same := ref.SameSet(sSet, want)
		detail = append(detail, fmt.Sprintf("layers (%d,%d) fitted at %s: box+line has %d IDs; corridor missing %v, beyond %v", l.h, l.v, from, len(want), missing, extra))
		if same {
			matched = true
			c.Obs("box_layers_h", float64(l.h))
			break
		}
	}
	obs = append(obs, detail...)
	if !matched {
		c.Fail("corridor-search-box", nil, "corridor(skip=true) with %d IDs is not line + N-layer box for any layer count the clearance fit reports for the line's voxels: %v", len(sSet), detail)
		return
	}
	// history: a corridor request at the voxel whose row index is this start row without its last decimal digit (same
	// zoom, column and radius; farther towards the pole, so it needs at least as many layers), then this request again:
	// the second answer must equal the first
	if h >= 8 && r.P(0.04) {
		if sv, e := shape.GetExtendedSpatialIdsOnPoints([]*object.Point{a}, h, v); e == nil {
			st, _ := ref.ParseExt(sv[0])
			pre := ref.ID{H: h, X: st.X, Y: st.Y / 10, V: v, F: st.F}
			latPre := (ref.LatOfRow(float64(pre.Y), h) + ref.LatOfRow(float64(pre.Y+1), h)) / 2
			wPre := wEq * math.Cos(latPre*math.Pi/180)
			if pre.Y != st.Y && rad/wPre <= 10 && math.Abs(latPre) < ref.MaxLat {
				lonPre := ref.LonOfColExact(pre.X, h) + 180/math.Ldexp(1, int(h))
				if pp, e := object.NewPoint(lonPre, latPre, a.Alt()); e == nil {
					_, _ = transform.GetExtendedSpatialIdsWithinRadiusOfLine(pp, pp, rad, h, v, true)
					again, e2 := transform.GetExtendedSpatialIdsWithinRadiusOfLine(a, b, rad, h, v, true)
					c.Calls(2)
					as, _ := ref.SetOfExt(again)
					if missing, extra, same := ref.SameSet(as, sSet); e2 != nil || !same {
						c.Fail("corridor-history-dependent", nil, "corridor(skip=true) repeated after a request at %s (row index without its last digit, same radius): err %v, missing %v, unexpected %v (%d vs %d IDs)", pre.Ext(), e2, missing, extra, len(as), len(sSet))
						return
					}
					c.Tag("decimal-prefix-history")
				}
			}
		}
	}
	// subset relation
	for s := range mSet {
		if _, ok := sSet[s]; !ok {
			c.Fail("corridor-subset", nil, "corridor(skip=false) contains %s which corridor(skip=true) does not", s)
			return
		}
	}
	// distance bound for every added voxel (one-sided)
	p, q := ref.ECEF(a.Lon(), a.Lat(), 0), ref.ECEF(b.Lon(), b.Lat(), 0)
	worst, worstID, worstD, worstG := 0.0, "", 0.0, 0.0
	added := 0
	for s := range mSet {
		if _, onLine := lineSet[s]; onLine {
			continue
		}
		added++
		x, _ := ref.ParseExt(s)
		w, e, n, so := ref.LonOfColExact(x.X, x.H), ref.LonOfColExact(x.X+1, x.H), ref.LatOfRow(float64(x.Y), x.H), ref.LatOfRow(float64(x.Y+1), x.H)
		corners := [4]ref.V3{ref.ECEF(w, n, 0), ref.ECEF(e, n, 0), ref.ECEF(e, so, 0), ref.ECEF(w, so, 0)}
		d := ref.SegQuadHull(p, q, corners)
		if d > rad*(1+1e-4)+1e-6 {
			// The voxel is farther than the radius. Attribute the inclusion: measure the same pair of hulls with the
			// third-party GJK exactly the way the corridor query feeds it. If GJK itself reports less than the
			// radius, the inclusion is the known under-estimation of closest_go (known finding); otherwise the
			// corridor's own logic admitted a voxel that its distance measurement puts outside the radius.
			g := thirdPartyDistance(a, b, s)
			if !(g < rad) {
				c.Fail("corridor-too-far", map[string]any{"ratio": d / rad, "gjk": g}, "added voxel %s: its footprint is %.6g m from the segment (GJK measures %.6g m), radius %.6g m (hZoom %d, kind %s)", s, d, g, rad, h, kind)
				return
			}
			if d/rad > worst {
				worst, worstID, worstD, worstG = d/rad, s, d, g
			}
		}
	}
	if worstID != "" {
		c.Fail("corridor-too-far-gjk-underestimate", map[string]any{"ratio": worst, "hZoom": h}, "added voxel %s: its footprint is %.6g m from the segment but closest_go's GJK measures %.6g m, radius %.6g m (ratio %.4f, hZoom %d, kind %s)", worstID, worstD, worstG, rad, worst, h, kind)
		return
	}
	c.Obs("added_voxels_distance_checked", float64(added))
	if added > 0 {
		c.Tag("distance-checked")
	}
	if len(mSet) < len(sSet) {
		c.Tag("filter-removed-some")
	}
}

// thirdPartyDistance measures chord-to-voxel distance with closest_go's GJK, fed exactly as
// transform.GetExtendedSpatialIdsWithinRadiusOfLine feeds it (latitude in the height slot, all eight vertices,
// zero start direction). It is used only to attribute a violation already established by the independent oracle.
func thirdPartyDistance(a, b *object.Point, id string) float64 {
	var m closest.Measure
	var chord []*mgl64.Vec3
	for _, p := range []*object.Point{a, b} {
		g := geodesy.GeocentricFromGeodetic(geodesy.Geodetic{p.Lon(), p.Lat(), p.Lat()})
		chord = append(chord, (*mgl64.Vec3)(&g))
	}
	vs, err := shape.GetPointOnExtendedSpatialId(id, enum.Vertex)
	if err != nil {
		return math.Inf(1)
	}
	var hull []*mgl64.Vec3
	for _, v := range vs {
		g := geodesy.GeocentricFromGeodetic(geodesy.Geodetic{v.Lon(), v.Lat(), v.Lat()})
		hull = append(hull, (*mgl64.Vec3)(&g))
	}
	m.ConvexHulls[0], m.ConvexHulls[1] = chord, hull
	m.MeasureNonnegativeDistance()
	return m.Distance
}
