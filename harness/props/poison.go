package props

import (
	"math"

	"github.com/trajectoryjp/spatial_id_go/v4/common"
	"github.com/trajectoryjp/spatial_id_go/v4/common/enum"
	"github.com/trajectoryjp/spatial_id_go/v4/common/object"
	"github.com/trajectoryjp/spatial_id_go/v4/detector"
	"github.com/trajectoryjp/spatial_id_go/v4/integrate"
	"github.com/trajectoryjp/spatial_id_go/v4/operated"
	"github.com/trajectoryjp/spatial_id_go/v4/shape"
	"github.com/trajectoryjp/spatial_id_go/v4/transform"

	"verifmon/core"
	"verifmon/ref"
)

// Cross-function history: before 5 % of the cases of every monitor (decided by a PRNG stream separate from the case's
// own) one hostile call on SOME library function is issued and its outcome ignored: calls that fail after a valid
// prefix, nil/NaN/out-of-range arguments, a successful call on unrelated data. A library without mutable shared state
// (C19) cannot let such a call influence the judged case that follows; pooled buffers, caches and memos shared between
// functions can.
func init() {
	core.BeforeCase = func(prop string, r *core.Rng) string {
		defer func() { _ = recover() }()
		z := r.Range(4, 24)
		a := genID(r, z, z, z, z)
		valid := []string{a.Ext(), ref.Shift(a, 1, 0, 0).Ext(), ref.Shift(a, 0, 1, -1).Ext()}
		bad := malformedAfter(r, valid)
		sp := []string{a.Spatial()}
		switch r.Intn(14) {
		case 0:
			integrate.ChangeExtendedSpatialIdsZoom(bad, z+3, z+3)
			return "ChangeExtendedSpatialIdsZoom fails after a valid prefix"
		case 1:
			integrate.MergeExtendedSpatialIds(malformedAfter(r, ref.Exts(ref.ChangeOne(ancestor(a, z-1, z-1), z, z)[:7])), z-1, z-1)
			return "MergeExtendedSpatialIds fails after 7 of 8 children"
		case 2:
			transform.ConvertExtendedSpatialIDsToQuadkeysAndVerticalIDs(bad, clampI(z, 1, 31), z, 0, 0)
			return "ConvertExtendedSpatialIDsToQuadkeysAndVerticalIDs fails after a valid prefix"
		case 3:
			transform.ConvertExtendedSpatialIDsToQuadkeysAndAltitudekeys(bad, clampI(z, 1, 31), z, 26, 1<<25)
			return "ConvertExtendedSpatialIDsToQuadkeysAndAltitudekeys fails after a valid prefix"
		case 4:
			t1, _ := object.NewTileXYZ(20, 85263, 65423, 23, 100)
			t2, _ := object.NewTileXYZ(20, 85263, 65424, 23, 1<<23-1)
			transform.ConvertTileXYZsToExtendedSpatialIDs([]*object.TileXYZ{t1, t2}, 26, 0, 24)
			return "ConvertTileXYZsToExtendedSpatialIDs fails at the second tile"
		case 5:
			detector.CheckExtendedSpatialIdsArrayOverlap(bad, valid)
			detector.CheckSpatialIdsArrayOverlap(append(sp, "1/2"), sp)
			return "overlap checks fail after a valid prefix"
		case 6:
			operated.GetNspatialIdsAroundVoxcels(bad, 1, 1)
			operated.GetShiftingSpatialID("1/2/3", 1, 1, 1)
			return "neighbourhood queries on a malformed ID"
		case 7:
			p, _ := object.NewPoint(12, 34, 56)
			shape.GetExtendedSpatialIdsOnPoints([]*object.Point{p, nil}, z, z)
			shape.GetExtendedSpatialIdsOnLine(p, nil, z, z)
			return "nil point after a valid point"
		case 8:
			shape.GetPointOnExtendedSpatialId(valid[0], enum.PointOption(7))
			shape.GetPointOnExtendedSpatialId(bad[len(bad)-1], enum.Vertex)
			return "GetPointOnExtendedSpatialId with unknown option / malformed ID"
		case 9:
			p, _ := object.NewPoint(139.7, 35.6, 10)
			shape.ConvertPointListToProjectedPointList([]*object.Point{p}, 999999)
			shape.ConvertPointListToProjectedPointList([]*object.Point{p}, 3857)
			return "projection with an unknown code, then 3857"
		case 10:
			nan := []float64{1, math.NaN(), 2, math.NaN()}
			for i := 0; i < 600; i++ {
				nan = append(nan, float64(i%37))
			}
			common.Unique(nan)
			common.Union(nan, nan[:300])
			return "set helpers on a long list containing NaN"
		case 11:
			p, _ := object.NewPoint(25.1, 75, 10)
			transform.GetExtendedSpatialIdsWithinRadiusOfLine(p, p, 30, 20, 20, true)
			transform.GetExtendedSpatialIdsWithinRadiusOfLine(p, p, -1, 20, 20, true)
			return "corridor at latitude 75, then with a negative radius"
		case 12:
			transform.ConvertQuadkeysAndVerticalIDsToExtendedSpatialIDs([]*object.QuadkeyAndVerticalID{object.NewQuadkeyAndVerticalID(6, 2914, 7, 74, 500, 0), object.NewQuadkeyAndVerticalID(6, 2914, 7, 74, 0, 500)}, 6, 26)
			return "bit-ID conversion failing at the second element (max < min)"
		}
		integrate.ChangeSpatialIdsZoom(append(sp, "x/0/0/0"), z)
		integrate.MergeSpatialIds(append(sp, "9/9"), z)
		return "spatial-ID zoom change / merge failing after a valid prefix"
	}
}
