package props

import (
	"fmt"

	"github.com/trajectoryjp/spatial_id_go/v4/operated"

	"verifmon/core"
	"verifmon/ref"
)

// C08 — neighbourhood queries return exactly the surrounding voxels.
func init() {
	core.Register(&core.Monitor{
		ID:        "C08",
		Technique: "reference-model monitor (set comprehension over stencil offsets of the modular-shift reference) + symmetry relation + concurrent scenarios (4-64 goroutines issuing the same judged calls at once) + hostile scheduler widths",
		Rule: "per case: a valid ID at zooms 0..35 (with emphasis on h in {0,1,2} where wrapped neighbours coincide and on the grid edges) for the 6/8/26 stencils, and a list of 1-5 voxels " +
			"(adjacent, identical, straddling the x/y seam, far apart) with layer counts 0..4 for the N-layer query. Oracle: set equality with {shift_ref(id,o)}, exact counts 6/8/26/(2H+1)^2(2V+1)-1 and " +
			"absence of the input where the stencil is narrower than the grid, len==|set| for the N-layer result, a in N(b) <=> b in N(a). Non-trivial = always (every case queries >= 4 stencils); distinct by (ID, list, layers).",
		Assume: []string{"reference: ref.Shift (integer modular arithmetic)"},
		N:      func(t string) int64 { return c08Directed + tierN(60_000, 2_000_000)(t) },
		Exhaustive: func(string) []string {
			return []string{"all 126 IDs with h <= 2, v <= 1 x all layer pairs 0..2 x 0..2 (6/8/26 stencils and the N-layer query on the single voxel)"}
		},
		Batch: func(t string) int64 { return tierN(60_000, 2_000_000)(t)/16 + 1 },
		Floor: tierN(1000, 10000),
		Run:   runC08,
	})
}

const c08Directed = 126 * 9

var c08Small []ref.ID

func c08SmallIDs() []ref.ID {
	if c08Small == nil {
		for h := int64(0); h <= 2; h++ {
			for v := int64(0); v <= 1; v++ {
				for x := int64(0); x < pow2(h); x++ {
					for y := int64(0); y < pow2(h); y++ {
						for f := -pow2(v); f < pow2(v); f++ {
							c08Small = append(c08Small, ref.ID{H: h, X: x, Y: y, V: v, F: f})
						}
					}
				}
			}
		}
	}
	return c08Small
}

func stencil6() [][3]int64 {
	return [][3]int64{{-1, 0, 0}, {1, 0, 0}, {0, -1, 0}, {0, 1, 0}, {0, 0, -1}, {0, 0, 1}}
}
func stencil8() [][3]int64 {
	var o [][3]int64
	for dx := int64(-1); dx <= 1; dx++ {
		for dy := int64(-1); dy <= 1; dy++ {
			if dx != 0 || dy != 0 {
				o = append(o, [3]int64{dx, dy, 0})
			}
		}
	}
	return o
}
func stencilBox(hl, vl int64) [][3]int64 {
	var o [][3]int64
	for dx := -hl; dx <= hl; dx++ {
		for dy := -hl; dy <= hl; dy++ {
			for dv := -vl; dv <= vl; dv++ {
				if dx != 0 || dy != 0 || dv != 0 {
					o = append(o, [3]int64{dx, dy, dv})
				}
			}
		}
	}
	return o
}

func wantStencil(ids []ref.ID, offs [][3]int64) map[string]struct{} {
	w := map[string]struct{}{}
	for _, a := range ids {
		for _, o := range offs {
			w[ref.Shift(a, o[0], o[1], o[2]).Ext()] = struct{}{}
		}
	}
	return w
}

// c08Huge (thorough tier only, ~1 GB, seconds): one N-layer call with more than 2^22 distinct result IDs, then small
// queries inside and beside its result. State that a library keeps from a huge call must not change later answers.
func c08Huge(c *core.Case) {
	r := c.R
	c.Tag("small-queries-after-2^22-result-call")
	c.NonTrivial()
	var big []string
	var ids []ref.ID
	for i := int64(0); i < 5800; i++ {
		id := ref.ID{H: 20, X: 100 + 20*(i%80), Y: 100 + 20*(i/80), V: 20, F: 3 + c.I}
		ids = append(ids, id)
		big = append(big, id.Ext())
	}
	c.KS(big[0], big[len(big)-1])
	var obs []string
	c.Desc = func() any { return map[string]any{"huge_call": "5800 voxels 20 apart, layers (4,4)", "observed": obs} }
	got, err := operated.GetNspatialIdsAroundVoxcels(big, 4, 4)
	c.Call()
	want := 5800 * (9*9*9 - 1)
	obs = append(obs, fmt.Sprintf("huge call: %d IDs, err %v", len(got), err))
	if err != nil || len(got) != want {
		c.Fail("nlayer-count", nil, "5800 separated voxels with layers (4,4): %d IDs (err %v), want %d", len(got), err, want)
		return
	}
	got = nil
	for k := 0; k < 40; k++ {
		q := ref.Shift(ids[r.Intn(len(ids))], r.Range(-5, 5), r.Range(-5, 5), r.Range(-5, 5))
		hl, vl := r.Range(0, 2), r.Range(0, 2)
		g, err := operated.GetNspatialIdsAroundVoxcels([]string{q.Ext()}, hl, vl)
		c.Call()
		gs, dup := ref.SetOfExt(g)
		missing, extra, same := ref.SameSet(gs, wantStencil([]ref.ID{q}, stencilBox(hl, vl)))
		if err != nil || !same || dup {
			c.Fail("nlayer-set-after-huge-call", nil, "GetNspatialIdsAroundVoxcels([%s],%d,%d) after a call with %d result IDs: %d IDs, err %v, missing %v, unexpected %v", q.Ext(), hl, vl, want, len(g), err, missing, extra)
			return
		}
	}
}

func runC08(c *core.Case) {
	r := c.R
	if c.Tier == "thorough" && c.I == c08Directed {
		c08Huge(c)
		return
	}
	if c.I > c08Directed && hammerWanted(c, c08Directed+1) {
		c08Hammer(c, c08Directed+1)
		return
	}
	if c.I >= c08Directed && r.P(0.02) { // consecutive neighbourhood queries on two IDs that collide under a common 32-bit string hash
		pairs := hashCollisionPairs()
		if len(pairs) > 0 {
			p := pairs[r.Intn(len(pairs))]
			if r.Bool() {
				p[0], p[1] = p[1], p[0]
			}
			which := r.Intn(4)
			c.Tag("hash-colliding-consecutive-ids")
			c.NonTrivial()
			c.KS(p[0], p[1])
			c.KI(int64(which))
			c.Desc = func() any { return map[string]any{"consecutive_ids": p, "query": which} }
			for k := 0; k < 2; k++ {
				id, _ := ref.ParseExt(p[k])
				var got []string
				var offs [][3]int64
				switch which {
				case 0:
					got, offs = operated.Get6spatialIdsAdjacentToFaces(p[k]), stencil6()
				case 1:
					got, offs = operated.Get8spatialIdsAroundHorizontal(p[k]), stencil8()
				case 2:
					got, offs = operated.Get26spatialIdsAroundVoxel(p[k]), stencilBox(1, 1)
				default:
					got, _ = operated.GetNspatialIdsAroundVoxcels([]string{p[k]}, 1, 2)
					offs = stencilBox(1, 2)
				}
				c.Call()
				gs, _ := ref.SetOfExt(got)
				if missing, extra, same := ref.SameSet(gs, wantStencil([]ref.ID{id}, offs)); !same {
					c.Fail("stencil-set-after-colliding-id", nil, "neighbourhood query %d of %s right after the same query of %s: missing %v, unexpected %v", which, p[k], p[1-k], missing, extra)
					return
				}
			}
			return
		}
	}
	var id ref.ID
	if r.P(0.3) {
		id = genID(r, 0, 3, 0, 35) // tiny grids: wrapped neighbours coincide
	} else {
		id = genID(r, 0, 35, 0, 35)
	}
	forced := c.I < c08Directed
	if forced { // exhaustive sub-scope: every ID with h <= 2, v <= 1, every layer pair 0..2 x 0..2, single-voxel list
		small := c08SmallIDs()
		id = small[c.I/9]
		c.Tag("exhaustive-small-grids")
	}
	s := id.Ext()
	var obs []string
	c.Desc = func() any { return map[string]any{"id": s, "observed": obs} }
	c.KS(s)
	c.NonTrivial()
	if id.H <= 1 {
		c.Tag("h<=1(stencil wider than grid)")
	}
	n := pow2(id.H)
	if id.X == 0 || id.Y == 0 || id.X == n-1 || id.Y == n-1 {
		c.Tag("grid-edge")
	}
	type q struct {
		name  string
		got   []string
		offs  [][3]int64
		count int
	}
	qs := []q{
		{"Get6spatialIdsAdjacentToFaces", operated.Get6spatialIdsAdjacentToFaces(s), stencil6(), 6},
		{"Get8spatialIdsAroundHorizontal", operated.Get8spatialIdsAroundHorizontal(s), stencil8(), 8},
		{"Get26spatialIdsAroundVoxel", operated.Get26spatialIdsAroundVoxel(s), stencilBox(1, 1), 26},
	}
	c.Calls(3)
	for _, x := range qs {
		obs = append(obs, fmt.Sprintf("%s(%s) = %v", x.name, s, x.got))
		want := wantStencil([]ref.ID{id}, x.offs)
		gs, dup := ref.SetOfExt(x.got)
		if missing, extra, same := ref.SameSet(gs, want); !same {
			c.Fail("stencil-set", nil, "%s(%s): missing %v, unexpected %v", x.name, s, missing, extra)
			return
		}
		if n >= 3 { // stencil narrower than the grid: exact count, no repeats, never the input itself
			if len(x.got) != x.count || dup {
				c.Fail("stencil-count", nil, "%s(%s) returned %d IDs (%d distinct), want %d distinct", x.name, s, len(x.got), len(gs), x.count)
				return
			}
			if _, self := gs[s]; self {
				c.Fail("stencil-self", nil, "%s(%s) contains the input itself", x.name, s)
				return
			}
		}
	}
	// symmetry: pick a returned neighbour b and ask whether a is a neighbour of b
	for qi, f := range []func(string) []string{operated.Get6spatialIdsAdjacentToFaces, operated.Get8spatialIdsAroundHorizontal, operated.Get26spatialIdsAroundVoxel} {
		nb := qs[qi].got[r.Intn(len(qs[qi].got))]
		back := f(nb)
		c.Call()
		found := false
		for _, x := range back {
			if x == s {
				found = true
			}
		}
		if !found {
			c.Fail("stencil-symmetry", nil, "%s: %s is a neighbour of %s but not vice versa", qs[qi].name, nb, s)
			return
		}
	}

	// N-layer query on a list
	hl, vl := r.Range(0, 4), r.Range(0, 4)
	if r.P(0.3) {
		hl, vl = r.Range(0, 2), r.Range(0, 2)
	}
	k := 1 + r.Intn(5)
	if r.P(0.4) {
		k = 1
	}
	if forced {
		hl, vl, k = (c.I%9)/3, c.I%3, 1
	}
	list := []ref.ID{id}
	for len(list) < k {
		switch r.Intn(5) {
		case 0:
			list = append(list, list[r.Intn(len(list))]) // identical
		case 1:
			list = append(list, ref.Shift(id, r.Range(-2, 2), r.Range(-2, 2), r.Range(-2, 2))) // adjacent / overlapping neighbourhoods (wraps at the seam)
		case 2:
			list = append(list, ref.ID{H: id.H, X: n - 1 - id.X, Y: id.Y, V: id.V, F: id.F}) // mirrored column (seam straddling when id.X is 0 or n-1)
		case 3: // same horizontal zoom, another vertical zoom, overlapping index neighbourhood (IDs that differ in vZoom only must stay distinct)
			o := ref.Shift(id, r.Range(-1, 1), r.Range(-1, 1), r.Range(-2, 2))
			o.V = clampI(id.V+r.Range(-8, 8), 0, 35)
			list = append(list, o)
		default:
			far := genID(r, id.H, id.H, id.V, id.V)
			list = append(list, far)
		}
	}
	if !forced && (r.P(0.0003) || (c.Tier == "thorough" && r.P(0.0003))) { // very long list, one layer
		n := veryLongLen(r)
		z := clampI(id.H, 12, 35)
		list = list[:0]
		for len(list) < n {
			list = append(list, ref.ID{H: z, X: r.I64n(pow2(z)), Y: r.I64n(pow2(z)), V: id.V, F: r.Range(-1000, 1000)})
		}
		list[n-2] = ref.Shift(list[0], 1, 0, 0) // overlapping neighbourhoods far apart in the list
		hl, vl = 1, 0
		c.Tag("very-long-list")
		c.Procs()
	}
	if !forced && r.P(0.03) {
		// two voxels at different horizontal zooms whose (zoom, index) pairs coincide under a packed integer key
		if a, b, ok := packedAliasID(r); ok {
			list = []ref.ID{a, b}
			if r.Bool() {
				list = append(list, id)
			}
			hl, vl = r.Range(0, 2), r.Range(0, 1)
			c.Tag("packed-key-alias-pair")
		}
	}
	in := ref.Exts(list)
	if !forced && r.P(0.02) {
		k := r.Intn(len(in))
		in[k] = respell(r, in[k])
		c.Tag("respelled-numerals")
	}
	inCopy := copyStrings(in)
	keyStrings(c, in)
	c.KI(hl, vl)
	got, err := operated.GetNspatialIdsAroundVoxcels(in, hl, vl)
	c.Call()
	obs = append(obs, fmt.Sprintf("GetNspatialIdsAroundVoxcels(%v,%d,%d) = %d IDs, err %v", in, hl, vl, len(got), err))
	if err != nil {
		c.Fail("nlayer-error", nil, "GetNspatialIdsAroundVoxcels(%v,%d,%d) returned error %v", in, hl, vl, err)
		return
	}
	if !sameStrings(in, inCopy) {
		c.Fail("input-modified", nil, "GetNspatialIdsAroundVoxcels modified its input slice")
		return
	}
	want := wantStencil(list, stencilBox(hl, vl))
	gs, dup := ref.SetOfExt(got)
	if missing, extra, same := ref.SameSet(gs, want); !same {
		c.Fail("nlayer-set", nil, "GetNspatialIdsAroundVoxcels(%v,%d,%d): missing %v, unexpected %v", in, hl, vl, missing, extra)
		return
	}
	if dup {
		c.Fail("nlayer-duplicates", nil, "GetNspatialIdsAroundVoxcels(%v,%d,%d) returned %d IDs but only %d distinct (documented as de-duplicated)", in, hl, vl, len(got), len(gs))
		return
	}
	if len(list) == 1 && 2*hl+1 <= n {
		wantN := (2*hl+1)*(2*hl+1)*(2*vl+1) - 1
		if int64(len(got)) != wantN {
			c.Fail("nlayer-count", nil, "single voxel %s with layers (%d,%d): %d neighbours, want %d", s, hl, vl, len(got), wantN)
			return
		}
		if _, self := gs[s]; self {
			c.Fail("nlayer-self", nil, "N-layer neighbourhood of %s contains the voxel itself", s)
			return
		}
		c.Tag("nlayer-single-count")
	}
	if 2*hl+1 > n {
		c.Tag("nlayer-wider-than-grid")
	}
	if len(list) > 1 {
		c.Tag("nlayer-multi")
	}
	// symmetry of the N-layer relation for a single voxel
	if len(list) == 1 && len(got) > 0 {
		nb := got[r.Intn(len(got))]
		back, _ := operated.GetNspatialIdsAroundVoxcels([]string{nb}, hl, vl)
		c.Call()
		found := false
		for _, x := range back {
			if x == s {
				found = true
			}
		}
		// when the stencil is wider than the grid the voxel can be its own wrapped neighbour and symmetry still holds
		if !found {
			c.Fail("nlayer-symmetry", nil, "%s is in the (%d,%d)-layer neighbourhood of %s but not vice versa", nb, hl, vl, s)
		}
	}
}
