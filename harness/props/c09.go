package props

import (
	"fmt"
	"math"

	"github.com/trajectoryjp/spatial_id_go/v4/common/object"
	"github.com/trajectoryjp/spatial_id_go/v4/detector"
	"github.com/trajectoryjp/spatial_id_go/v4/integrate"
	"github.com/trajectoryjp/spatial_id_go/v4/shape"

	"verifmon/core"
	"verifmon/ref"
)

// C09 — point lookup, zoom change, merge and overlap agree with each other.
func init() {
	core.Register(&core.Monitor{
		ID:        "C09",
		Technique: "relational monitor: equalities between results of point lookup, zoom change, merge and overlap on related arguments (no external reference)",
		Rule: "per case: a valid point (generators of C01: boundaries, domain edges, altitudes of both signs incl. negative non-multiples) and three zoom pairs (fine, coarse <= fine per axis, and an unrelated mixed pair); " +
			"relations: zoom-out(ID_fine(p)) == {ID_coarse(p)}; the point's voxels at all three zoom pairs pairwise overlap (both argument orders); for an ID (the fine voxel or a random one with negative f) and dh,dv <= 3: " +
			"every element of the zoom-in maps back to exactly {id}; merging the complete zoom-in at the ID's own zooms returns exactly {id}. Non-trivial = fine != coarse; distinct by (point, zooms).",
		Assume: []string{"the point lookup's nested floors are exact in float64 (scaling by powers of two), so no band is needed between zooms"},
		N:      tierN(120_000, 3_000_000),
		Floor:  tierN(1000, 10000),
		Run:    runC09,
	})
}

// c09Huge: the complete set of 2^19 descendants of an ID (6 horizontal, 7 vertical levels finer) merged at the ID's own
// zooms must give exactly the ID, and zooming them out must give exactly the ID (thorough tier only: ~1 GB, seconds).
func c09Huge(c *core.Case) {
	id := ref.ID{H: 9, X: 300 + c.I, Y: 200, V: 8, F: -3 - c.I}
	s := id.Ext()
	c.Tag("2^19-descendants")
	c.NonTrivial()
	c.KS(s)
	c.Desc = func() any { return map[string]any{"id": s, "zoom_in": []int{6, 7}, "descendants": 1 << 19} }
	in, err := integrate.ChangeExtendedSpatialIdsZoom([]string{s}, id.H+6, id.V+7)
	c.Call()
	if err != nil || len(in) != 1<<19 {
		c.Fail("zoom-in-count", nil, "zoom-in of %s by (6,7) returned %d IDs (err %v), want %d", s, len(in), err, 1<<19)
		return
	}
	mg, err := integrate.MergeExtendedSpatialIds(in, id.H, id.V)
	c.Call()
	if err != nil || len(mg) != 1 || mg[0] != s {
		c.Fail("merge-descendants-2^19", nil, "merging the 2^19 descendants of %s at its own zooms gives %d IDs (first %v, err %v)", s, len(mg), trunc(mg, 3), err)
		return
	}
	out, err := integrate.ChangeExtendedSpatialIdsZoom(in, id.H, id.V)
	c.Call()
	if err != nil || len(out) != 1 || out[0] != s {
		c.Fail("zoom-in-out", nil, "zooming the 2^19 descendants of %s back out gives %v (err %v)", s, trunc(out, 3), err)
	}
}

func runC09(c *core.Case) {
	if c.Tier == "thorough" && c.I < 2 {
		c09Huge(c)
		return
	}
	r := c.R
	hf, vf := genZoom(r), genZoom(r)
	hc, vc := r.Range(0, hf), r.Range(0, vf)
	if r.P(0.3) {
		hc = clampI(hf-r.Range(0, 2), 0, 35)
	}
	if r.P(0.3) {
		vc = clampI(vf-r.Range(0, 2), 0, 35)
	}
	h3, v3 := genZoom(r), genZoom(r)
	p := pt{genLon(r, hf), genLat(r, hf), genAlt(r, vf)}
	if r.P(0.12) {
		// a latitude on (or a few ulps beside) a row boundary of a coarse zoom, looked up at a fine zoom on the other side
		// of 30/31 (where the line algorithm and any zoom-dependent numeric path switch): the two lookups must nest
		hc = r.Range(18, 29)
		hf = r.Range(30, 35)
		half := pow2(hc - 1)
		k := half + r.Range(-int64(0.1/360*float64(pow2(hc))), int64(0.1/360*float64(pow2(hc))))
		if r.P(0.3) {
			k = r.Range(1, pow2(hc)-1)
		}
		lat := ref.LatOfRow(float64(k), hc)
		for u := r.Range(-3, 3); u != 0; {
			if u > 0 {
				lat = up(lat)
				u--
			} else {
				lat = down(lat)
				u++
			}
		}
		p.lat = math.Max(-ref.MaxLat, math.Min(ref.MaxLat, lat))
		// latitudes are stored on a 1e-10 degree lattice: search the lattice for a point that lies within ~1e-6 row of a
		// boundary of the coarse zoom (these are the only inputs on which a last-bit difference between two evaluations
		// of the Mercator row can change the row)
		if r.P(0.7) {
			best, bestD := p.lat, 1.0
			for try := 0; try < 3000 && bestD > 2e-7; try++ {
				kk := half + r.Range(-int64(0.1/360*float64(pow2(hc))), int64(0.1/360*float64(pow2(hc))))
				t := math.Round(ref.LatOfRow(float64(kk), hc)*1e10) / 1e10
				y := ref.YFloat(t, hc)
				if d := math.Abs(y - math.Round(y)); d < bestD {
					best, bestD = t, d
				}
			}
			p.lat = best
			c.Obs("lattice_boundary_distance_rows_sum", bestD)
			c.Tag("lattice-point-on-row-boundary")
		}
		c.Tag("coarse-row-boundary")
	}
	o, err := object.NewPoint(p.lon, p.lat, p.alt)
	if err != nil {
		c.Fail("point-constructor", nil, "NewPoint(%v,%v,%v): %v", p.lon, p.lat, p.alt, err)
		return
	}
	var obs []string
	c.Desc = func() any {
		return map[string]any{"point": fmt.Sprintf("(%.17g, %.17g, %.17g)", p.lon, p.lat, p.alt), "fine": []int64{hf, vf}, "coarse": []int64{hc, vc}, "mixed": []int64{h3, v3}, "observed": obs}
	}
	c.KF(p.lon, p.lat, p.alt)
	c.KI(hf, vf, hc, vc, h3, v3)
	if hf != hc || vf != vc {
		c.NonTrivial()
	}
	if p.alt < 0 {
		c.Tag("below-ground")
	}
	lookup := func(h, v int64) (string, bool) {
		ids, e := shape.GetExtendedSpatialIdsOnPoints([]*object.Point{o}, h, v)
		c.Call()
		if e != nil || len(ids) != 1 {
			c.Fail("point-error", nil, "point lookup at (%d,%d): %v, %v", h, v, ids, e)
			return "", false
		}
		return ids[0], true
	}
	fine, ok := lookup(hf, vf)
	if !ok {
		return
	}
	coarse, ok := lookup(hc, vc)
	if !ok {
		return
	}
	mixed, ok := lookup(h3, v3)
	if !ok {
		return
	}
	obs = append(obs, "fine "+fine, "coarse "+coarse, "mixed "+mixed)
	// (a) nesting: zoom-out of the fine voxel is the coarse voxel
	out, err := integrate.ChangeExtendedSpatialIdsZoom([]string{fine}, hc, vc)
	c.Call()
	if err != nil || len(out) != 1 || out[0] != coarse {
		cls := "nesting"
		if p.alt < 0 {
			cls = "nesting-below-ground"
		}
		c.Fail(cls, nil, "point (%v,%v,%v): ID at (%d,%d) is %s, its zoom-out to (%d,%d) is %v (err %v) but the point's ID there is %s", p.lon, p.lat, p.alt, hf, vf, fine, hc, vc, out, err, coarse)
		return
	}
	// per-axis independence: change only one axis
	outH, e1 := integrate.ChangeExtendedSpatialIdsZoom([]string{fine}, hc, vf)
	wantH, ok := lookup(hc, vf)
	if !ok {
		return
	}
	c.Call()
	if e1 != nil || len(outH) != 1 || outH[0] != wantH {
		c.Fail("nesting-axis", nil, "zoom-out of %s on the horizontal axis only gives %v, the point's ID at (%d,%d) is %s", fine, outH, hc, vf, wantH)
		return
	}
	// (b) all voxels of the point pairwise overlap
	vox := []string{fine, coarse, mixed, wantH}
	for i := range vox {
		for j := range vox {
			g, e := detector.CheckExtendedSpatialIdsOverlap(vox[i], vox[j])
			c.Call()
			if e != nil || !g {
				cls := "point-voxels-overlap"
				if p.alt < 0 {
					cls = "point-voxels-overlap-below-ground"
				}
				c.Fail(cls, nil, "voxels %s and %s both contain the point (%v,%v,%v) but CheckExtendedSpatialIdsOverlap = (%v,%v)", vox[i], vox[j], p.lon, p.lat, p.alt, g, e)
				return
			}
		}
	}
	// (b') the same through the single-zoom (radix tree) overlap check: the point's voxels at two zooms h == v, inside
	// the altitude window of that check
	if math.Abs(p.alt) < 1<<24 {
		z1, z2 := r.Range(1, 35), r.Range(20, 35)
		s1, ok1 := lookup(z1, z1)
		s2, ok2 := lookup(z2, z2)
		if !ok1 || !ok2 {
			return
		}
		a1, _ := ref.ParseExt(s1)
		a2, _ := ref.ParseExt(s2)
		if inWindow(a1) && inWindow(a2) {
			for _, pr := range [][2]ref.ID{{a1, a2}, {a2, a1}} {
				g, e := detector.CheckSpatialIdsOverlap(pr[0].Spatial(), pr[1].Spatial())
				c.Call()
				if e != nil || !g {
					c.Fail("point-voxels-overlap-spatial", nil, "voxels %s and %s both contain the point (%v,%v,%v) but CheckSpatialIdsOverlap = (%v,%v)", pr[0].Spatial(), pr[1].Spatial(), p.lon, p.lat, p.alt, g, e)
					return
				}
			}
			c.Tag("single-zoom-overlap-of-point-voxels")
		}
	}
	// (c),(d) zoom in and back, merge of the complete set of descendants
	var id ref.ID
	if r.Bool() {
		id, _ = ref.ParseExt(fine)
	} else {
		id = genID(r, 0, 32, 0, 32)
		if id.F >= 0 && r.P(0.7) {
			id.F = -id.F - 1
		}
	}
	dh, dv := r.Range(0, 3), r.Range(0, 3)
	if id.H+dh > 35 {
		dh = 35 - id.H
	}
	if id.V+dv > 35 {
		dv = 35 - id.V
	}
	if id.F < -pow2(id.V) || id.F >= pow2(id.V) { // a point exactly at +2^25 m yields f = 2^v, outside the valid ID range
		return
	}
	s := id.Ext()
	c.KS(s)
	c.KI(dh, dv)
	in, err := integrate.ChangeExtendedSpatialIdsZoom([]string{s}, id.H+dh, id.V+dv)
	c.Call()
	if err != nil || int64(len(in)) != pow2(2*dh+dv) {
		c.Fail("zoom-in-count", nil, "zoom-in of %s by (%d,%d) returned %d IDs (err %v), want %d", s, dh, dv, len(in), err, pow2(2*dh+dv))
		return
	}
	for k, e := range in {
		if k >= 24 && k%7 != 0 {
			continue
		}
		bk, err := integrate.ChangeExtendedSpatialIdsZoom([]string{e}, id.H, id.V)
		c.Call()
		if err != nil || len(bk) != 1 || bk[0] != s {
			cls := "zoom-in-out"
			if id.F < 0 {
				cls = "zoom-in-out-negative-f"
			}
			c.Fail(cls, nil, "%s is in the zoom-in of %s but zooms back out to %v (err %v)", e, s, bk, err)
			return
		}
	}
	all, err := integrate.ChangeExtendedSpatialIdsZoom(in, id.H, id.V)
	c.Call()
	if err != nil || len(all) != 1 || all[0] != s {
		c.Fail("zoom-in-out", nil, "zooming the whole zoom-in of %s back out gives %v (err %v)", s, trunc(all, 8), err)
		return
	}
	mg, err := integrate.MergeExtendedSpatialIds(in, id.H, id.V)
	c.Call()
	if err != nil || len(mg) != 1 || mg[0] != s {
		cls := "merge-descendants"
		if id.F < 0 {
			cls = "merge-descendants-negative-f"
		}
		c.Fail(cls, nil, "merging the %d descendants of %s at its own zooms gives %v (err %v)", len(in), s, trunc(mg, 8), err)
		return
	}
	if id.F < 0 {
		c.Tag("id-negative-f")
	}
	// (d') a complete cover of mixed depth: some descendants replaced by their own complete sets of children, in
	// shuffled order (fine ones may come before coarse ones): still merges to exactly the ID
	if len(in) >= 2 && len(in) <= 64 && id.H+dh < 35 && id.V+dv < 35 {
		var mixed []string
		for _, e := range in {
			if r.P(0.3) {
				a, _ := ref.ParseExt(e)
				for _, ch := range ref.ChangeOne(a, a.H+1, a.V+1) {
					mixed = append(mixed, ch.Ext())
				}
			} else {
				mixed = append(mixed, e)
			}
		}
		mixed = shuffleStrings(r, mixed)
		mm, err := integrate.MergeExtendedSpatialIds(mixed, id.H, id.V)
		c.Call()
		if err != nil || len(mm) != 1 || mm[0] != s {
			c.Fail("merge-descendants-mixed-depth", nil, "merging a complete mixed-depth cover of %s (%d IDs, first %v) at its own zooms gives %v (err %v)", s, len(mixed), trunc(mixed, 6), trunc(mm, 8), err)
			return
		}
		c.Tag("mixed-depth-cover")
	}
}
