package props

import (
	"fmt"
	"math"
	"sort"
	"strings"

	"github.com/trajectoryjp/spatial_id_go/v4/common"
	"github.com/trajectoryjp/spatial_id_go/v4/common/object"
	"github.com/trajectoryjp/spatial_id_go/v4/detector"
	"github.com/trajectoryjp/spatial_id_go/v4/integrate"
	"github.com/trajectoryjp/spatial_id_go/v4/operated"
	"github.com/trajectoryjp/spatial_id_go/v4/shape"
	"github.com/trajectoryjp/spatial_id_go/v4/transform"

	"verifmon/core"
	"verifmon/ref"
)

// C16 — results depend only on the input set: deterministic, order-blind, no duplicates, inputs untouched.
func init() {
	core.Register(&core.Monitor{
		ID:        "C16",
		Technique: "relational monitor: repeated in-process calls (fresh map-iteration orders), permuted and duplicated inputs compared as canonical sets; deep-copy comparison of the arguments",
		Rule: "per case one set-valued operation (zoom change x2, merge x2, line x2, corridor with both flags, 6/8/26/N neighbourhoods, the four overlap checks, five key conversions, two tile conversions) on a valid argument tuple " +
			"(nested/duplicated/corner-first list shapes included): R repeated calls (quick 4, thorough 8), 3 random permutations of every list argument and one variant with random entries repeated; " +
			"violation if two canonical results differ, if a result documented as de-duplicated has len != |set|, or if an argument differs from its deep copy after the call. " +
			"Non-trivial = the operation has a list argument with >= 2 distinct entries or the result has >= 2 elements; distinct by (operation, arguments). " +
			"Schedule evidence: number of distinct element orders observed among equal sets, and distinct output orders of common.Unique on a fixed 12-element slice.",
		Assume: []string{"Go randomises map iteration order per map and per iteration; each in-process call therefore samples a fresh order ('schedule')"},
		N:      tierN(60_000, 1_500_000),
		Floor:  tierN(500, 5000),
		Run:    runC16,
	})
}

type c16Res struct {
	canon string
	n     int // length of the returned list (-1: not a list)
	dist  int // distinct elements
	order string
	err   error
}

func canonList(l []string) c16Res {
	set := map[string]struct{}{}
	for _, s := range l {
		set[s] = struct{}{}
	}
	k := make([]string, 0, len(set))
	for s := range set {
		k = append(k, s)
	}
	sort.Strings(k)
	return c16Res{canon: strings.Join(k, " "), n: len(l), dist: len(set), order: strings.Join(l, " ")}
}

func pick[T any](base []T, idx []int) []T {
	out := make([]T, len(idx))
	for i, j := range idx {
		out[i] = base[j]
	}
	return out
}

type c16Op struct {
	args  string // description of the arguments (for samples and witnesses)
	name  string
	sizes []int                              // sizes of the list arguments (base element counts)
	dedup bool                               // result documented as de-duplicated
	call  func(idx [][]int) (c16Res, string) // returns result and "" or a description of a modified input
	// between, if set, is the same operation on OTHER arguments (e.g. the same zooms and radius elsewhere on the globe);
	// it runs between the first and the second identical call: "the same arguments give the same set" must not depend
	// on what was asked in between
	between func()
}

func identity(n int) []int {
	p := make([]int, n)
	for i := range p {
		p[i] = i
	}
	return p
}

func runC16(c *core.Case) {
	r := c.R
	R := 4
	if c.Tier == "thorough" {
		R = 8
	}
	op := c16MakeOp(c)
	if op == nil {
		return
	}
	op.args = c16ArgDesc
	c.Tag("op:" + op.name)
	c.KS(op.name)
	var variants []string
	base := make([][]int, len(op.sizes))
	for i, n := range op.sizes {
		base[i] = identity(n)
	}
	run := func(label string, idx [][]int) (c16Res, bool) {
		res, mod := op.call(idx)
		c.Call()
		variants = append(variants, fmt.Sprintf("%s: n=%d distinct=%d err=%v", label, res.n, res.dist, res.err))
		if mod != "" {
			c.Fail("input-modified:"+op.name, nil, "%s (%s): %s", op.name, label, mod)
			return res, false
		}
		if res.err != nil {
			c.Fail("error-on-valid-input:"+op.name, nil, "%s (%s) returned %v", op.name, label, res.err)
			return res, false
		}
		if op.dedup && res.n >= 0 && res.n != res.dist {
			c.Fail("duplicates:"+op.name, nil, "%s (%s): result has %d entries but only %d distinct (documented as de-duplicated)", op.name, label, res.n, res.dist)
			return res, false
		}
		return res, true
	}
	first, ok := run("call 1", base)
	if !ok {
		return
	}
	nontrivial := first.dist >= 2
	for _, n := range op.sizes {
		if n >= 2 {
			nontrivial = true
		}
	}
	if nontrivial {
		c.NonTrivial()
	}
	orders := map[string]bool{first.order: true}
	if op.between != nil {
		op.between()
		c.Call()
		c.Tag("other-arguments-between-identical-calls")
	}
	for k := 2; k <= R; k++ {
		res, ok := run(fmt.Sprintf("call %d", k), base)
		if !ok {
			return
		}
		orders[res.order] = true
		if res.canon != first.canon {
			c.Fail("nondeterministic:"+op.name, map[string]any{"first": trunc1(first.canon), "later": trunc1(res.canon)}, "%s: identical calls returned different sets (%d vs %d elements)", op.name, first.dist, res.dist)
			return
		}
	}
	if first.n >= 2 {
		c.Obs("repeat_groups_with_list_result", 1)
		c.Obs("distinct_orders_seen_in_repeat_groups", float64(len(orders)))
	}
	hasList := false
	for _, n := range op.sizes {
		if n >= 1 {
			hasList = true
		}
	}
	if hasList {
		for k := 0; k < 3; k++ {
			idx := make([][]int, len(op.sizes))
			for i, n := range op.sizes {
				idx[i] = r.Perm(n)
			}
			res, ok := run(fmt.Sprintf("permutation %d %v", k+1, idx), idx)
			if !ok {
				return
			}
			if res.canon != first.canon {
				c.Fail("order-dependent:"+op.name, map[string]any{"first": trunc1(first.canon), "permuted": trunc1(res.canon), "permutation": idx}, "%s: permuting the input lists (%v) changed the result set (%d vs %d elements)", op.name, idx, first.dist, res.dist)
				return
			}
		}
		idx := make([][]int, len(op.sizes))
		for i, n := range op.sizes {
			idx[i] = identity(n)
			for d := r.Intn(3) + 1; d > 0 && n > 0; d-- {
				at := r.Intn(len(idx[i]) + 1)
				idx[i] = append(idx[i][:at], append([]int{r.Intn(n)}, idx[i][at:]...)...)
			}
		}
		res, ok := run(fmt.Sprintf("repeated entries %v", idx), idx)
		if !ok {
			return
		}
		if res.canon != first.canon {
			c.Fail("duplication-dependent:"+op.name, map[string]any{"first": trunc1(first.canon), "duplicated": trunc1(res.canon), "indices": idx}, "%s: repeating entries of the input lists (%v) changed the result set (%d vs %d elements)", op.name, idx, first.dist, res.dist)
			return
		}
	}
	// schedule source is live: common.Unique on a fixed slice yields varying orders
	if c.I%64 == 0 {
		fixed := []string{"a", "b", "c", "d", "e", "f", "g", "h", "i", "j", "k", "l"}
		seen := map[string]bool{}
		for k := 0; k < 8; k++ {
			seen[strings.Join(common.Unique(fixed), "")] = true
		}
		c.Obs("unique_probe_groups", 1)
		c.Obs("unique_probe_distinct_orders_of_8", float64(len(seen)))
	}
	desc := variants
	c.Desc = func() any {
		return map[string]any{"operation": op.name, "arguments": op.args, "variants": desc, "first_result": trunc1(first.canon)}
	}
}

func strsUnmodified(name string, a, b []string) string {
	if !sameStrings(a, b) {
		return fmt.Sprintf("argument %s was modified by the call: %q -> %q", name, b, a)
	}
	return ""
}

// c16ArgDesc is set by c16MakeOp (one case at a time per worker process).
var c16ArgDesc string

func c16MakeOp(c *core.Case) *c16Op {
	r := c.R
	c16ArgDesc = ""
	note := func(format string, a ...any) { c16ArgDesc = fmt.Sprintf(format, a...) }
	_ = note
	// a family of related IDs: base, nested entries, neighbours, corner-first shapes
	mkIDs := func(hlo, hhi, vlo, vhi int64, square bool) []ref.ID {
		base := genID(r, hlo, hhi, vlo, vhi)
		if square {
			z := base.H
			if z > 35 {
				z = 35
			}
			base = genID(r, z, z, z, z)
			if z >= 1 {
				base.F = clampI(base.F, -pow2(z-1), pow2(z-1)-1)
			}
		}
		ids := []ref.ID{base}
		if !square && r.P(0.25) && base.H <= hhi-2 && base.V <= vhi-2 {
			ids = cornerFirst(r, base, r.Range(0, 2), r.Range(1, 2))
		}
		if !square && r.P(0.1) && hlo == 0 && hhi == 35 && vlo == 0 && vhi == 35 {
			P, ch := truncAliasPair(r) // f = 0 voxel and a finer below-ground voxel on the same footprint (not nested)
			ids = []ref.ID{P, ch}
			base = P
		}
		for k := r.Intn(5); k > 0; k-- {
			switch r.Intn(4) {
			case 0:
				if !square {
					ids = append(ids, descendant(r, base, clampI(base.H+r.Range(0, 2), hlo, hhi), clampI(base.V+r.Range(0, 2), vlo, vhi)))
					continue
				}
				if d := r.Range(1, 2); base.H+d <= hhi && base.H+d <= 35 { // nested single-zoom IDs: a child (or grandchild) of the base
					ch := descendant(r, base, base.H+d, base.V+d)
					ids = append(ids, ch)
					if r.Bool() { // child listed before its parent (the base stays the coarsest ID: the nesting depth is at most 2)
						ids[0], ids[len(ids)-1] = ids[len(ids)-1], ids[0]
					}
					continue
				}
				fallthrough
			case 1:
				n := ref.Shift(base, r.Range(-1, 1), r.Range(-1, 1), r.Range(-1, 1))
				n.F = clampI(n.F, -pow2(n.V), pow2(n.V)-1)
				if square && n.V >= 1 {
					n.F = clampI(n.F, -pow2(n.V-1), pow2(n.V-1)-1)
				}
				ids = append(ids, n)
			default:
				x := genID(r, base.H, base.H, base.V, base.V)
				if square && x.V >= 1 {
					x.F = clampI(x.F, -pow2(x.V-1), pow2(x.V-1)-1)
				}
				ids = append(ids, x)
			}
		}
		return ids
	}
	minZ := func(ids []ref.ID) (int64, int64) {
		h, v := int64(35), int64(35)
		for _, a := range ids {
			if a.H < h {
				h = a.H
			}
			if a.V < v {
				v = a.V
			}
		}
		return h, v
	}
	listCall := func(name string, base []string, f func([]string) ([]string, error)) func(idx [][]int) (c16Res, string) {
		if c16ArgDesc == "" {
			note("%s=%q (zoom arguments are part of the case key)", name, trunc(base, 24))
		}
		return func(idx [][]int) (c16Res, string) {
			in := pick(base, idx[0])
			cp := copyStrings(in)
			out, err := f(in)
			res := canonList(out)
			res.err = err
			return res, strsUnmodified(name, in, cp)
		}
	}
	switch k := r.Intn(22); k {
	case 0, 1: // zoom change, extended
		ids := mkIDs(0, 35, 0, 35, false)
		mh, mv := minZ(ids)
		H, V := clampI(mh+r.Range(-3, 2), 0, 35), clampI(mv+r.Range(-3, 2), 0, 35)
		base := ref.Exts(ids)
		keyStrings(c, base)
		c.KI(H, V)
		note("ids=%q hZoom=%d vZoom=%d", base, H, V)
		return &c16Op{name: "ChangeExtendedSpatialIdsZoom", sizes: []int{len(base)}, dedup: true, call: listCall("ids", base, func(l []string) ([]string, error) { return integrate.ChangeExtendedSpatialIdsZoom(l, H, V) })}
	case 2: // zoom change, spatial
		ids := mkIDs(1, 33, 1, 33, true)
		mz, _ := minZ(ids) // relative to the coarsest ID of the list, so that the expansion stays within 8^2 per ID
		Z := clampI(mz+r.Range(-3, 2), 0, 35)
		base := ref.Spatials(ids)
		keyStrings(c, base)
		c.KI(Z)
		return &c16Op{name: "ChangeSpatialIdsZoom", sizes: []int{len(base)}, dedup: true, call: listCall("ids", base, func(l []string) ([]string, error) { return integrate.ChangeSpatialIdsZoom(l, Z) })}
	case 3, 4: // merge, extended
		H, V := r.Range(0, 33), r.Range(0, 33)
		T := genID(r, H, H, V, V)
		ids := c04Fill(r, T, r.Range(0, 2), r.Range(0, 2), r.Intn(4))
		if r.Bool() {
			T2 := T
			T2.F = clampI(-T.F-1, -pow2(V), pow2(V)-1)
			ids = append(ids, c04Fill(r, T2, r.Range(0, 1), r.Range(0, 2), r.Intn(4))...)
		}
		if len(ids) == 0 {
			ids = []ref.ID{T}
		}
		if len(ids) > 40 {
			ids = ids[:40]
		}
		base := ref.Exts(ids)
		keyStrings(c, base)
		c.KI(H, V)
		note("ids=%q hZoom=%d vZoom=%d", trunc(base, 24), H, V)
		return &c16Op{name: "MergeExtendedSpatialIds", sizes: []int{len(base)}, dedup: true, call: listCall("ids", base, func(l []string) ([]string, error) { return integrate.MergeExtendedSpatialIds(l, H, V) })}
	case 5: // merge, spatial
		Z := r.Range(1, 33)
		T := genID(r, Z, Z, Z, Z)
		ids := c04Fill(r, T, 1, 1, r.Intn(4))
		if len(ids) == 0 {
			ids = []ref.ID{T}
		}
		base := ref.Spatials(ids)
		keyStrings(c, base)
		c.KI(Z)
		return &c16Op{name: "MergeSpatialIds", sizes: []int{len(base)}, dedup: true, call: listCall("ids", base, func(l []string) ([]string, error) { return integrate.MergeSpatialIds(l, Z) })}
	case 6, 7: // lines (no list argument: repeated calls only)
		h, v := genZoom(r), genZoom(r)
		pa, pb, _ := genSegment(r, h, v, 8)
		a, _ := object.NewPoint(pa.lon, pa.lat, pa.alt)
		b, _ := object.NewPoint(pb.lon, pb.lat, pb.alt)
		c.KF(pa.lon, pa.lat, pa.alt, pb.lon, pb.lat, pb.alt)
		c.KI(h, v)
		note("start=(%.17g,%.17g,%.17g) end=(%.17g,%.17g,%.17g) hZoom=%d vZoom=%d", pa.lon, pa.lat, pa.alt, pb.lon, pb.lat, pb.alt, h, v)
		name := "GetExtendedSpatialIdsOnLine"
		f := func() ([]string, error) { return shape.GetExtendedSpatialIdsOnLine(a, b, h, v) }
		if k == 7 && math.Abs(pa.alt-pb.alt)*math.Ldexp(1, int(h-25)) <= 40 {
			name = "GetSpatialIdsOnLine"
			f = func() ([]string, error) { return shape.GetSpatialIdsOnLine(a, b, h) }
		}
		return &c16Op{name: name, sizes: nil, dedup: true, call: func([][]int) (c16Res, string) {
			a0, b0 := *a, *b
			out, err := f()
			res := canonList(out)
			res.err = err
			if *a != a0 || *b != b0 {
				return res, "an end point object was modified"
			}
			return res, ""
		}}
	case 8: // corridor
		z := c14Zooms[r.Intn(len(c14Zooms))]
		h, v := z[0], z[1]
		pa, pb, kind := genSegment(r, h, v, 4)
		if kind == "span-columns" || kind == "span-rows" {
			pb = pa
		}
		wEq := 2 * math.Pi * ref.EarthR / math.Ldexp(1, int(h))
		latMax := math.Min(ref.MaxLat, math.Max(math.Abs(pa.lat), math.Abs(pb.lat))+360/math.Ldexp(1, int(h)))
		rad := r.Uniform(0.05, 1.5) * wEq * math.Cos(latMax*math.Pi/180)
		if h <= 4 {
			rad *= 0.25
		}
		skip := r.Bool()
		a, _ := object.NewPoint(pa.lon, pa.lat, pa.alt)
		b, _ := object.NewPoint(pb.lon, pb.lat, pb.alt)
		c.KF(pa.lon, pa.lat, pa.alt, pb.lon, pb.lat, pb.alt, rad)
		c.KI(h, v)
		note("start=(%.17g,%.17g,%.17g) end=(%.17g,%.17g,%.17g) radius=%v hZoom=%d vZoom=%d skip=%v", pa.lon, pa.lat, pa.alt, pb.lon, pb.lat, pb.alt, rad, h, v, skip)
		// the same request (zooms, radius, flag) at another latitude, where the clearance fit needs other layer counts
		olat := pa.lat + []float64{40, -40, 60, -60, 25}[r.Intn(5)]
		if olat > 80 || olat < -80 {
			olat = -pa.lat / 2
		}
		oa, _ := object.NewPoint(pa.lon, olat, pa.alt)
		ob, _ := object.NewPoint(pa.lon+(pb.lon-pa.lon)/2, olat, pb.alt)
		orad := rad
		if wo := wEq * math.Cos((math.Abs(olat)+1)*math.Pi/180); orad > 2.5*wo {
			oa = nil // the radius would be many voxel widths there: skip the interleaved call
		}
		var between func()
		if oa != nil && ob != nil && h > 4 {
			between = func() { transform.GetExtendedSpatialIdsWithinRadiusOfLine(oa, ob, orad, h, v, skip) }
		}
		return &c16Op{name: fmt.Sprintf("GetExtendedSpatialIdsWithinRadiusOfLine(skip=%v)", skip), sizes: nil, dedup: true, between: between, call: func([][]int) (c16Res, string) {
			a0, b0 := *a, *b
			out, err := transform.GetExtendedSpatialIdsWithinRadiusOfLine(a, b, rad, h, v, skip)
			res := canonList(out)
			res.err = err
			if *a != a0 || *b != b0 {
				return res, "an end point object was modified"
			}
			return res, ""
		}}
	case 9: // 6/8/26 neighbourhoods (single ID: repeated calls only)
		id := genID(r, 0, 35, 0, 35).Ext()
		c.KS(id)
		note("id=%s", id)
		which := r.Intn(3)
		name := []string{"Get6spatialIdsAdjacentToFaces", "Get8spatialIdsAroundHorizontal", "Get26spatialIdsAroundVoxel"}[which]
		return &c16Op{name: name, sizes: nil, dedup: false, call: func([][]int) (c16Res, string) {
			var out []string
			switch which {
			case 0:
				out = operated.Get6spatialIdsAdjacentToFaces(id)
			case 1:
				out = operated.Get8spatialIdsAroundHorizontal(id)
			default:
				out = operated.Get26spatialIdsAroundVoxel(id)
			}
			return canonList(out), ""
		}}
	case 10, 11: // N-layer neighbourhood
		ids := mkIDs(0, 35, 0, 35, false)
		for i := range ids { // same zooms: a neighbourhood query takes voxels of one grid, but mixed zooms are legal too
			if r.P(0.8) {
				ids[i] = ref.Shift(ids[0], r.Range(-2, 2), r.Range(-2, 2), r.Range(-2, 2))
			}
		}
		if len(ids) > 5 {
			ids = ids[:5]
		}
		hl, vl := r.Range(0, 3), r.Range(0, 3)
		base := ref.Exts(ids)
		keyStrings(c, base)
		c.KI(hl, vl)
		note("ids=%q hLayers=%d vLayers=%d", base, hl, vl)
		return &c16Op{name: "GetNspatialIdsAroundVoxcels", sizes: []int{len(base)}, dedup: true, call: listCall("ids", base, func(l []string) ([]string, error) { return operated.GetNspatialIdsAroundVoxcels(l, hl, vl) })}
	case 12, 13: // overlap checks
		square := k == 13
		l1 := mkIDs(0, 35, 0, 35, square)
		var l2 []ref.ID
		for n := 1 + r.Intn(4); n > 0; n-- {
			x, _ := c05Related(r, l1[r.Intn(len(l1))], square)
			if square && !inWindow(x) {
				continue
			}
			l2 = append(l2, x)
		}
		if square {
			var keep []ref.ID
			for _, x := range l1 {
				if inWindow(x) {
					keep = append(keep, x)
				}
			}
			l1 = keep
		}
		var b1, b2 []string
		if square {
			b1, b2 = ref.Spatials(l1), ref.Spatials(l2)
		} else {
			b1, b2 = ref.Exts(l1), ref.Exts(l2)
		}
		keyStrings(c, b1)
		keyStrings(c, b2)
		note("list1=%q list2=%q", b1, b2)
		name := map[bool]string{false: "CheckExtendedSpatialIdsArrayOverlap", true: "CheckSpatialIdsArrayOverlap"}[square]
		return &c16Op{name: name, sizes: []int{len(b1), len(b2)}, dedup: false, call: func(idx [][]int) (c16Res, string) {
			i1, i2 := pick(b1, idx[0]), pick(b2, idx[1])
			c1, c2 := copyStrings(i1), copyStrings(i2)
			var g bool
			var err error
			if square {
				g, err = detector.CheckSpatialIdsArrayOverlap(i1, i2)
			} else {
				g, err = detector.CheckExtendedSpatialIdsArrayOverlap(i1, i2)
			}
			mod := strsUnmodified("list1", i1, c1) + strsUnmodified("list2", i2, c2)
			return c16Res{canon: fmt.Sprint(g), n: -1, dist: 1, err: err}, mod
		}}
	case 14: // pairwise overlap (repeated calls only)
		a := genID(r, 0, 35, 0, 35)
		b, _ := c05Related(r, a, false)
		sa, sb := a.Ext(), b.Ext()
		c.KS(sa, sb)
		note("id1=%s id2=%s", sa, sb)
		return &c16Op{name: "CheckExtendedSpatialIdsOverlap", sizes: nil, dedup: false, call: func([][]int) (c16Res, string) {
			g, err := detector.CheckExtendedSpatialIdsOverlap(sa, sb)
			return c16Res{canon: fmt.Sprint(g), n: -1, dist: 1, err: err}, ""
		}}
	case 15, 16, 17: // forward key conversions
		ids := mkIDs(1, 31, 0, 35, k == 17)
		if k == 17 {
			for i := range ids {
				z := clampI(ids[i].H, 1, 31)
				ids[i] = genID(r, z, z, z, z)
			}
		}
		mh, mv := minZ(ids)
		H, V := clampI(mh+r.Range(-3, 2), 1, 31), clampI(mv+r.Range(-3, 2), 0, 35)
		note("ids=%q outputHZoom=%d outputVZoom=%d", ref.Exts(ids), H, V)
		pairsOf := func(groups [][][2]int64) c16Res {
			var l []string
			for _, g := range groups {
				for _, p := range g {
					l = append(l, fmt.Sprintf("%d:%d", p[0], p[1]))
				}
			}
			return canonList(l)
		}
		switch k {
		case 15:
			base := ref.Exts(ids)
			keyStrings(c, base)
			c.KI(H, V)
			return &c16Op{name: "ConvertExtendedSpatialIDsToQuadkeysAndVerticalIDs", sizes: []int{len(base)}, dedup: true, call: func(idx [][]int) (c16Res, string) {
				in := pick(base, idx[0])
				cp := copyStrings(in)
				out, err := transform.ConvertExtendedSpatialIDsToQuadkeysAndVerticalIDs(in, H, V, 0, 0)
				var g [][][2]int64
				for _, x := range out {
					g = append(g, x.InnerIDList())
				}
				res := pairsOf(g)
				res.err = err
				return res, strsUnmodified("ids", in, cp)
			}}
		case 16:
			base := ref.Exts(ids)
			keyStrings(c, base)
			c.KI(H, V)
			// an altitude reference under which every voxel fits: E = 26, O = 2^25 covers -2^25 .. 2^25 m
			return &c16Op{name: "ConvertExtendedSpatialIDsToQuadkeysAndAltitudekeys", sizes: []int{len(base)}, dedup: true, call: func(idx [][]int) (c16Res, string) {
				in := pick(base, idx[0])
				cp := copyStrings(in)
				A := clampI(mv+r.Range(0, 0), 0, 35)
				out, err := transform.ConvertExtendedSpatialIDsToQuadkeysAndAltitudekeys(in, H, A, 26, 1<<25)
				var g [][][2]int64
				for _, x := range out {
					g = append(g, x.InnerIDList())
				}
				res := pairsOf(g)
				res.err = err
				return res, strsUnmodified("ids", in, cp)
			}}
		default:
			base := ref.Spatials(ids)
			keyStrings(c, base)
			Z := clampI(ids[0].H+r.Range(-2, 2), 1, 31)
			c.KI(Z)
			return &c16Op{name: "ConvertSpatialIDsToQuadkeysAndVerticalIDs", sizes: []int{len(base)}, dedup: true, call: func(idx [][]int) (c16Res, string) {
				in := pick(base, idx[0])
				cp := copyStrings(in)
				out, err := transform.ConvertSpatialIDsToQuadkeysAndVerticalIDs(in, Z, Z, 0, 0)
				var g [][][2]int64
				for _, x := range out {
					g = append(g, x.InnerIDList())
				}
				res := pairsOf(g)
				res.err = err
				return res, strsUnmodified("ids", in, cp)
			}}
		}
	case 18, 19: // backward key conversions
		qz, vz := r.Range(1, 31), r.Range(0, 35)
		if k == 19 { // the spatial form has one output zoom for both axes: keep the vertical zoom near the horizontal one
			vz = clampI(qz+r.Range(-2, 2), 0, 35)
		}
		var objs []*object.QuadkeyAndVerticalID
		q0 := r.I64n(pow2(2 * clampI(qz, 1, 30)))
		for n := 1 + r.Intn(5); n > 0; n-- {
			q := q0 + r.Range(-2, 2)
			if q < 0 {
				q = 0
			}
			objs = append(objs, object.NewQuadkeyAndVerticalID(qz, q, vz, r.Range(-3, 3), 0, 0))
			c.KI(q)
		}
		H, V := clampI(qz+r.Range(-3, 2), 0, 35), clampI(vz+r.Range(-3, 2), 0, 35)
		bitForm := r.P(0.4)
		if bitForm {
			// bit-form elements: every element carries its own height range; elements share the vertical index (and often
			// the tile) but differ in the range, so each one's altitudes must come from its own range whatever the order
			V = r.Range(18, 23)
			H = clampI(qz+r.Range(-2, 1), 0, 35)
			if k == 19 {
				H = V
				qz = V - r.Range(0, 1)
				q0 = r.I64n(pow2(2 * qz))
			}
			vz = r.Range(4, 8)
			vi := r.I64n(pow2(vz))
			ranges := [][2]float64{{1024, -1024}, {512, 0}, {2048, -2048}, {1000, -1000}, {0, -512}}
			objs = objs[:0]
			for n := 2 + r.Intn(4); n > 0; n-- {
				q := q0
				if r.P(0.4) {
					q = clampI(q0+r.Range(-1, 1), 0, pow2(2*qz)-1)
				}
				rg := ranges[r.Intn(len(ranges))]
				objs = append(objs, object.NewQuadkeyAndVerticalID(qz, q, vz, clampI(vi+r.Range(-1, 1)*int64(r.Intn(2)), 0, pow2(vz)-1), rg[0], rg[1]))
				c.KI(q, int64(rg[0]), int64(rg[1]))
			}
			c.Tag("bit-form-mixed-height-ranges")
		}
		c.KI(qz, vz, H, V)
		name := "ConvertQuadkeysAndVerticalIDsToExtendedSpatialIDs"
		if k == 19 {
			name = "ConvertQuadkeysAndVerticalIDsToSpatialIDs"
			if !bitForm {
				H = clampI(qz+r.Range(-3, 1), 0, 35)
			}
		}
		return &c16Op{name: name, sizes: []int{len(objs)}, dedup: k == 18, call: func(idx [][]int) (c16Res, string) {
			in := pick(objs, idx[0])
			cp := make([]object.QuadkeyAndVerticalID, len(in))
			for i, o := range in {
				cp[i] = *o
			}
			var out []string
			var err error
			if k == 18 {
				out, err = transform.ConvertQuadkeysAndVerticalIDsToExtendedSpatialIDs(in, H, V)
			} else {
				out, err = transform.ConvertQuadkeysAndVerticalIDsToSpatialIDs(in, H)
			}
			res := canonList(out)
			res.err = err
			for i, o := range in {
				if *o != cp[i] {
					return res, "a QuadkeyAndVerticalID argument was modified"
				}
			}
			return res, ""
		}}
	default: // 20, 21: tile conversions
		V := r.Range(20, 27)
		var tiles []*object.TileXYZ
		h0 := clampI(V+r.Range(-2, 2), 0, 35)
		x0, y0 := edgeIndex(r, pow2(h0)), edgeIndex(r, pow2(h0))
		sameZ := r.P(0.3) // tiles that carry the same key NUMBER at different vertical zooms (the number alone identifies nothing)
		zc := r.Range(0, 7)
		if sameZ {
			c.Tag("tiles-same-key-number-other-vzoom")
		}
		for n := 1 + r.Intn(5); n > 0; n-- {
			vz := clampI(V+r.Range(-2, 2), 0, 35)
			z := pow2(vz)/2 + r.Range(-3, 3) // around 0 m with offset 2^24 at exponent 25
			z = clampI(z, 0, pow2(vz)-1)
			if sameZ && vz >= 3 {
				z = zc
			}
			h := h0
			x, y := x0, y0
			if r.P(0.3) {
				x = clampI(x0+r.Range(-1, 1), 0, pow2(h)-1)
			}
			t, err := object.NewTileXYZ(h, x, y, vz, z)
			if err != nil {
				c.Fail("tile-constructor", nil, "NewTileXYZ: %v", err)
				return nil
			}
			tiles = append(tiles, t)
			c.KI(h, x, y, vz, z)
		}
		c.KI(V)
		name := "ConvertTileXYZsToExtendedSpatialIDs"
		if k == 21 {
			name = "ConvertTileXYZsToSpatialIDs"
		}
		return &c16Op{name: name, sizes: []int{len(tiles)}, dedup: k == 20, call: func(idx [][]int) (c16Res, string) {
			in := pick(tiles, idx[0])
			cp := make([]object.TileXYZ, len(in))
			for i, o := range in {
				cp[i] = *o
			}
			var l []string
			var err error
			if k == 20 {
				var out []object.ExtendedSpatialID
				out, err = transform.ConvertTileXYZsToExtendedSpatialIDs(in, 25, 1<<24, V)
				for _, o := range out {
					l = append(l, o.ID())
				}
			} else {
				l, err = transform.ConvertTileXYZsToSpatialIDs(in, 25, 1<<24, V)
			}
			res := canonList(l)
			res.err = err
			for i, o := range in {
				if *o != cp[i] {
					return res, "a TileXYZ argument was modified"
				}
			}
			return res, ""
		}}
	}
}
