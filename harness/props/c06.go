package props

import (
	"fmt"
	"math"

	"github.com/trajectoryjp/spatial_id_go/v4/common/object"
	"github.com/trajectoryjp/spatial_id_go/v4/shape"

	"verifmon/core"
	"verifmon/ref"
)

// C06 — a line is voxelised without gaps, onto voxels the segment really touches.
func init() {
	core.Register(&core.Monitor{
		ID:        "C06",
		Technique: "geometric invariant monitor: end-point membership, slab intersection of every returned voxel with the segment, breadth-first connectivity under 26-adjacency",
		Rule: "per case: zooms (h,v) in 0..35^2 (emphasis on the threshold switches h in {30,31}, v in {33,34,35} and on 35), a start point and an end point 0-12 voxel widths away per axis " +
			"(axis-parallel on each axis, planar, full diagonal, exactly through voxel corners, crossing f=0, ends on lon=+-180, |lat| up to the limit, first-to-last column/row spans at low zoom, identical ends, both ends in one voxel). " +
			"Oracle: duplicate-free; contains the library's own voxels of both end points; every voxel's box (expanded by 1e-12 deg lon, 1.5e-10 deg lat, 1e-9(1+res) m + 4 ulp of |alt|) is hit by the segment interpolated linearly in lon/lat/alt; " +
			"the set is connected from the start voxel under |dx|,|dy|,|df| <= 1 without wrap-around (column 0 and 2^h-1 are adjacent only when an end point has lon exactly 180, which the library folds to column 0); " +
			"single voxel when both ends share one; the spatial-ID form gives the same set with h=v. Non-trivial = the line spans >= 2 voxels; distinct by (points, zooms).",
		Assume: []string{"voxel boxes from the exact/closed-form reference of C02", "tolerances cover the documented 1e-10 deg latitude truncation of midpoints and float error of the point lookup (<= 8e-14 deg lon, <= 3e-12 deg lat)"},
		N:      tierN(60_000, 1_500_000),
		Floor:  tierN(500, 5000),
		Run:    runC06,
	})
}

// voxelBox returns lo/hi of the voxel in (lon, lat, alt).
func voxelBox(a ref.ID) (lo, hi [3]float64) {
	res := math.Ldexp(1, int(25-a.V))
	lo = [3]float64{ref.LonOfColExact(a.X, a.H), ref.LatOfRow(float64(a.Y+1), a.H), float64(a.F) * res}
	hi = [3]float64{ref.LonOfColExact(a.X+1, a.H), ref.LatOfRow(float64(a.Y), a.H), float64(a.F+1) * res}
	return
}

func segTouchesBox(a, b [3]float64, lo, hi, eps [3]float64) bool {
	t0, t1 := 0.0, 1.0
	for k := 0; k < 3; k++ {
		p, d := a[k], b[k]-a[k]
		l, h := lo[k]-eps[k], hi[k]+eps[k]
		if d == 0 {
			if p < l || p > h {
				return false
			}
			continue
		}
		ta, tb := (l-p)/d, (h-p)/d
		if ta > tb {
			ta, tb = tb, ta
		}
		t0, t1 = math.Max(t0, ta), math.Min(t1, tb)
		if t0 > t1 {
			return false
		}
	}
	return true
}

// lineChecks judges a returned line set; shared with C14/C16. start/end are the stored coordinates.
func lineChecks(c *core.Case, got []string, a, b *object.Point, h, v int64, ends []string) (ids []ref.ID, ok bool) {
	set, dup := ref.SetOfExt(got)
	if dup {
		c.Fail("line-duplicates", nil, "line result contains an ID twice (len %d, distinct %d)", len(got), len(set))
		return nil, false
	}
	for _, e := range ends {
		if _, in := set[e]; !in {
			c.Fail("line-endpoint-missing", nil, "voxel %s of an end point is not in the line result %v", e, trunc(got, 12))
			return nil, false
		}
	}
	var err error
	ids, err = parseAll(got)
	if err != nil {
		c.Fail("line-malformed", nil, "line result contains a malformed ID: %v", err)
		return nil, false
	}
	sa, sb := [3]float64{a.Lon(), a.Lat(), a.Alt()}, [3]float64{b.Lon(), b.Lat(), b.Alt()}
	res := math.Ldexp(1, int(25-v))
	// midpoints are computed in float64: a point of the segment is only known to within a few ulps of its
	// coordinates' magnitude (3.7e-9 m at |alt| = 2^24..2^25), which matters for millimetre voxels at vZoom 35
	amax := math.Max(math.Abs(a.Alt()), math.Abs(b.Alt()))
	eps := [3]float64{1e-12, 1.5e-10, 1e-9*(1+res) + 4*(math.Nextafter(amax, math.Inf(1))-amax)}
	n := pow2(h)
	fold := a.Lon() == 180 || b.Lon() == 180
	for _, x := range ids {
		if x.H != h || x.V != v || x.X < 0 || x.X >= n || x.Y < 0 || x.Y >= n {
			c.Fail("line-bad-id", nil, "line result contains %s, not a voxel at zooms (%d,%d)", x.Ext(), h, v)
			return nil, false
		}
		lo, hi := voxelBox(x)
		touched := segTouchesBox(sa, sb, lo, hi, eps)
		if !touched && fold && x.X == 0 { // lon 180 is folded to column 0: test the box translated by +360
			lo[0] += 360
			hi[0] += 360
			touched = segTouchesBox(sa, sb, lo, hi, eps)
		}
		if !touched {
			c.Fail("line-stray-voxel", nil, "voxel %s (lon %v..%v, lat %v..%v, alt %v..%v) is not touched by the segment (%v,%v,%v)-(%v,%v,%v)",
				x.Ext(), lo[0], hi[0], lo[1], hi[1], lo[2], hi[2], sa[0], sa[1], sa[2], sb[0], sb[1], sb[2])
			return nil, false
		}
	}
	// connectivity from the start voxel
	adj := func(p, q ref.ID) bool {
		dx := absI(p.X - q.X)
		if fold && dx == n-1 {
			dx = 1
		}
		return dx <= 1 && absI(p.Y-q.Y) <= 1 && absI(p.F-q.F) <= 1
	}
	start, _ := ref.ParseExt(ends[0])
	present := make(map[ref.ID]bool, len(ids))
	for _, q := range ids {
		present[q] = true
	}
	seen := map[ref.ID]bool{start: true}
	queue := []ref.ID{start}
	for len(queue) > 0 {
		p := queue[0]
		queue = queue[1:]
		for dx := int64(-1); dx <= 1; dx++ {
			for dy := int64(-1); dy <= 1; dy++ {
				for df := int64(-1); df <= 1; df++ {
					q := ref.ID{H: p.H, X: p.X + dx, Y: p.Y + dy, V: p.V, F: p.F + df}
					if fold && (q.X == -1 || q.X == n) { // column 0 and 2^h-1 touch only through the folded 180 degree end point
						q.X = (q.X + n) % n
					}
					if present[q] && !seen[q] && adj(p, q) {
						seen[q] = true
						queue = append(queue, q)
					}
				}
			}
		}
	}
	if len(seen) != len(ids) {
		var lost []string
		for _, q := range ids {
			if !seen[q] && len(lost) < 4 {
				lost = append(lost, q.Ext())
			}
		}
		c.Fail("line-gap", nil, "line result is not connected: %d of %d voxels are not reachable from the start voxel %s under 26-adjacency, e.g. %v", len(ids)-len(seen), len(ids), ends[0], lost)
		return nil, false
	}
	return ids, true
}

// genSegment draws a start point and an end point a few voxel widths away.
func genSegment(r *core.Rng, h, v int64, maxW float64) (a, b pt, kind string) {
	wLon := 360 / math.Ldexp(1, int(h))
	res := math.Ldexp(1, int(25-v))
	a = pt{genLon(r, h), genLat(r, h), genAlt(r, v)}
	if r.P(0.3) {
		a.alt = r.Uniform(-3, 3) * res // near ground level
	}
	y := ref.YFloat(a.lat, h)
	rowH := math.Abs(ref.LatOfRow(math.Floor(y), h) - ref.LatOfRow(math.Floor(y)+1, h))
	if rowH <= 0 || math.IsNaN(rowH) {
		rowH = wLon
	}
	steps := func() float64 {
		switch r.Intn(4) {
		case 0:
			return float64(r.Range(-3, 3)) + r.Uniform(-0.5, 0.5)
		case 1:
			return r.Uniform(-maxW, maxW)
		case 2:
			return r.Uniform(-1.5, 1.5)
		}
		return float64(r.Range(-int64(maxW), int64(maxW)))
	}
	dx, dy, df := steps()*wLon, steps()*rowH, steps()*res
	kinds := []string{"axis-lon", "axis-lat", "axis-alt", "planar", "diagonal", "corner-through", "identical", "same-voxel", "general", "general", "span-columns", "span-rows"}
	kind = kinds[r.Intn(len(kinds))]
	switch kind {
	case "axis-lon":
		dy, df = 0, 0
	case "axis-lat":
		dx, df = 0, 0
	case "axis-alt":
		dx, dy = 0, 0
	case "planar":
		df = 0
	case "diagonal":
		k := float64(r.Range(1, int64(maxW)))
		dx, dy, df = k*wLon*float64(2*r.Intn(2)-1), k*rowH*float64(2*r.Intn(2)-1), k*res*float64(2*r.Intn(2)-1)
	case "corner-through": // start on a voxel corner, end an integer number of voxels away: passes exactly through corners
		n := pow2(h)
		cx, cf := r.Range(0, n), r.Range(-pow2(v), pow2(v))
		a.lon = math.Max(-180, math.Min(180, float64(cx)*wLon-180))
		a.alt = float64(cf) * res
		k := float64(r.Range(1, 4))
		dx, dy, df = k*wLon*float64(2*r.Intn(2)-1), k*rowH*float64(2*r.Intn(2)-1), k*res*float64(2*r.Intn(2)-1)
	case "identical":
		dx, dy, df = 0, 0, 0
	case "same-voxel":
		dx, dy, df = r.Uniform(-0.3, 0.3)*wLon, r.Uniform(-0.3, 0.3)*rowH, r.Uniform(-0.3, 0.3)*res
	case "span-columns": // first to last column along one parallel (low zoom only: cost)
		if h <= 6 {
			a.lon = -180 + r.Uniform(0, 1)*wLon
			dx = 360 - wLon*r.Uniform(0.1, 1.2)
			dy, df = 0, 0
		}
	case "span-rows":
		if h <= 6 {
			a.lat = ref.MaxLat - r.Uniform(0, 0.01)
			dy = -2*ref.MaxLat + r.Uniform(0, 0.02)
			dx, df = 0, 0
		}
	}
	clamp := func(x, lo, hi float64) float64 { return math.Max(lo, math.Min(hi, x)) }
	b = pt{clamp(a.lon+dx, -180, 180), clamp(a.lat+dy, -ref.MaxLat, ref.MaxLat), clamp(a.alt+df, -(1 << 25), 1<<25)}
	if r.P(0.05) {
		b.lon = []float64{180, -180}[r.Intn(2)]
		if math.Abs(b.lon-a.lon) > maxW*wLon {
			a.lon = clamp(b.lon-math.Copysign(r.Uniform(0, maxW)*wLon, b.lon), -180, 180)
		}
	}
	if r.Bool() {
		a, b = b, a
	}
	return
}

// c06Huge (thorough tier only, about 40 s and 1 GB): a vertical line through 2^21 + 300000 layers at vertical zoom 35
// (2.3 km): the result is exactly that column of voxels, every layer once.
func c06Huge(c *core.Case) {
	const h, v = 20, 35
	layers := int64(1<<21 + 300000)
	lon, lat := 139.7+float64(c.I), 35.6
	f0 := int64(-1000 - 7*c.I)
	res := math.Ldexp(1, 25-v)
	a, e1 := object.NewPoint(lon, lat, (float64(f0)+0.5)*res)
	b, e2 := object.NewPoint(lon, lat, (float64(f0+layers-1)+0.5)*res)
	c.Tag("vertical-line-of-2^21+300000-layers")
	c.NonTrivial()
	c.KI(layers, f0)
	var got []string
	var err error
	c.Desc = func() any {
		return map[string]any{"scenario": "vertical line", "lon": lon, "lat": lat, "first_f": f0, "layers": layers, "hZoom": h, "vZoom": v, "result_len": len(got), "error": fmt.Sprint(err)}
	}
	if e1 != nil || e2 != nil {
		c.Fail("point-constructor", nil, "NewPoint: %v %v", e1, e2)
		return
	}
	col, err := shape.GetExtendedSpatialIdsOnPoints([]*object.Point{a}, h, v)
	if err != nil || len(col) != 1 {
		c.Fail("line-error", nil, "start point lookup: %v", err)
		return
	}
	first, _ := ref.ParseExt(col[0])
	got, err = shape.GetExtendedSpatialIdsOnLine(a, b, h, v)
	c.Call()
	if err != nil {
		c.Fail("line-error", nil, "GetExtendedSpatialIdsOnLine on a %d-layer vertical line returned %v", layers, err)
		return
	}
	seen := make(map[int64]struct{}, len(got))
	for _, s := range got {
		id, e := ref.ParseExt(s)
		if e != nil || id.H != h || id.V != v || id.X != first.X || id.Y != first.Y || id.F < f0 || id.F >= f0+layers {
			c.Fail("line-stray", nil, "vertical line in column %d/%d/%d: result contains %q", h, first.X, first.Y, s)
			return
		}
		if _, dup := seen[id.F]; dup {
			c.Fail("line-duplicates", nil, "vertical line: layer %d returned twice", id.F)
			return
		}
		seen[id.F] = struct{}{}
	}
	if int64(len(seen)) != layers {
		missing := int64(-1)
		for f := f0; f < f0+layers; f++ {
			if _, ok := seen[f]; !ok {
				missing = f
				break
			}
		}
		c.Fail("line-gap", nil, "vertical line through %d layers: only %d returned, first missing layer f=%d", layers, len(seen), missing)
	}
}

func runC06(c *core.Case) {
	if c.Tier == "thorough" && c.I < 1 {
		c06Huge(c)
		return
	}
	r := c.R
	h, v := genZoom(r), genZoom(r)
	if r.P(0.3) {
		h = []int64{30, 31, 34, 35, 0, 1, 2}[r.Intn(7)]
	}
	if r.P(0.3) {
		v = []int64{33, 34, 35, 0, 25}[r.Intn(5)]
	}
	pa, pb, kind := genSegment(r, h, v, 12)
	if r.P(0.0004) || (c.Tier == "thorough" && r.P(0.0004)) {
		// a long line: 4500 .. 20000 voxel widths along the longest axis (implementations may treat long lines differently)
		pa, pb, kind = genSegment(r, h, v, 3)
		span := r.Uniform(4500, 20000)
		wLon := 360 / math.Ldexp(1, int(h))
		res := math.Ldexp(1, int(25-v))
		switch r.Intn(3) {
		case 0:
			if h >= 15 {
				pb.lon = math.Max(-180, math.Min(180, pa.lon+span*wLon*float64(2*r.Intn(2)-1)))
			}
		case 1:
			if h >= 16 && math.Abs(pa.lat) < 60 {
				pb.lat = math.Max(-ref.MaxLat, math.Min(ref.MaxLat, pa.lat+span*wLon*0.6*float64(2*r.Intn(2)-1)))
			}
		default:
			if v >= 14 {
				pb.alt = math.Max(-(1 << 25), math.Min(1<<25, pa.alt+span*res*float64(2*r.Intn(2)-1)))
			}
		}
		kind = "long-line"
	}
	a, e1 := object.NewPoint(pa.lon, pa.lat, pa.alt)
	b, e2 := object.NewPoint(pb.lon, pb.lat, pb.alt)
	if e1 != nil || e2 != nil {
		c.Fail("point-constructor", nil, "NewPoint refused an in-domain point: %v %v", e1, e2)
		return
	}
	var got []string
	var err error
	c.Desc = func() any {
		return map[string]any{"start": fmt.Sprintf("(%.17g, %.17g, %.17g)", pa.lon, pa.lat, pa.alt), "end": fmt.Sprintf("(%.17g, %.17g, %.17g)", pb.lon, pb.lat, pb.alt),
			"hZoom": h, "vZoom": v, "kind": kind, "result": trunc(got, 60), "error": fmt.Sprint(err)}
	}
	c.KF(pa.lon, pa.lat, pa.alt, pb.lon, pb.lat, pb.alt)
	c.KI(h, v)
	c.Tag("kind-" + kind)
	if r.P(0.12) {
		// object reuse: the same two Point objects first describe a neighbouring segment (end points a voxel or two
		// away), which is voxelised, and are then moved to the judged end points through the setters (sometimes only
		// the end point moves); the judged call must see the current coordinates
		wLon := 360 / math.Ldexp(1, int(h))
		res := math.Ldexp(1, int(25-v))
		jit := func(p pt) pt {
			q := pt{p.lon + r.Uniform(-2, 2)*wLon, p.lat + r.Uniform(-2, 2)*wLon*0.5, p.alt + r.Uniform(-2, 2)*res}
			q.lon = math.Max(-180, math.Min(180, q.lon))
			q.lat = math.Max(-ref.MaxLat, math.Min(ref.MaxLat, q.lat))
			q.alt = math.Max(-(1 << 25), math.Min(1<<25, q.alt))
			return q
		}
		oa, ob := jit(pa), jit(pb)
		set := func(o *object.Point, p pt) { o.SetLon(p.lon); o.SetLat(p.lat); o.SetAlt(p.alt) }
		set(a, oa)
		set(b, ob)
		_, _ = shape.GetExtendedSpatialIdsOnLine(a, b, h, v)
		c.Call()
		if r.P(0.7) {
			set(a, pa)
		} else { // only the end point moves: the judged segment starts where the earlier one started
			pa = oa
		}
		set(b, pb)
		c.Tag("reused-point-objects")
	}
	ends, err := shape.GetExtendedSpatialIdsOnPoints([]*object.Point{a, b}, h, v)
	c.Call()
	if err != nil || len(ends) != 2 {
		c.Fail("point-error", nil, "point lookup of the end points failed: %v", err)
		return
	}
	got, err = shape.GetExtendedSpatialIdsOnLine(a, b, h, v)
	c.Call()
	if err != nil {
		c.Fail("line-error", nil, "GetExtendedSpatialIdsOnLine returned %v for valid points and zooms", err)
		return
	}
	if a.Lon() != pa.lon || a.Alt() != pa.alt || b.Lon() != pb.lon || b.Alt() != pb.alt {
		c.Fail("input-modified", nil, "an end point object was modified by the call")
		return
	}
	if ends[0] == ends[1] {
		c.Tag("single-voxel")
		if len(got) != 1 || got[0] != ends[0] {
			c.Fail("line-single-voxel", nil, "both ends lie in %s but the line result is %v", ends[0], trunc(got, 12))
		}
	} else {
		c.NonTrivial()
	}
	ids, ok := lineChecks(c, got, a, b, h, v, ends)
	if !ok {
		return
	}
	c.Obs("line_voxels", float64(len(ids)))
	if len(ids) >= 10 {
		c.Tag("len>=10")
	}
	if (pa.alt < 0) != (pb.alt < 0) {
		c.Tag("crosses-ground")
	}
	// spatial form: same set with h = v = z
	z := h
	if math.Abs(pa.alt-pb.alt)*math.Ldexp(1, int(z-25)) > 40 {
		return // the same segment would cross too many voxels at vertical zoom z (cost)
	}
	c.Tag("spatial-form")
	extZ, e3 := shape.GetExtendedSpatialIdsOnLine(a, b, z, z)
	spZ, e4 := shape.GetSpatialIdsOnLine(a, b, z)
	c.Calls(2)
	if e3 != nil || e4 != nil {
		c.Fail("line-error", nil, "line at zoom (%d,%d): %v / spatial form: %v", z, z, e3, e4)
		return
	}
	want := map[string]struct{}{}
	for _, s := range extZ {
		x, e := ref.ParseExt(s)
		if e != nil {
			c.Fail("line-malformed", nil, "%v", e)
			return
		}
		want[x.Spatial()] = struct{}{}
	}
	gs, dup := ref.SetOfExt(spZ)
	if missing, extra, same := ref.SameSet(gs, want); !same || dup {
		c.Fail("line-spatial-form", nil, "GetSpatialIdsOnLine(..,%d) differs from the extended form at (%d,%d): missing %v, unexpected %v, duplicates %v", z, z, z, missing, extra, dup)
	}
}
