package props

import (
	"fmt"
	"math"

	"github.com/trajectoryjp/spatial_id_go/v4/common/object"
	"github.com/trajectoryjp/spatial_id_go/v4/shape"

	"verifmon/core"
	"verifmon/ref"
)

// C01 — a point is mapped to the one grid voxel that contains it.

const c01Directed = 36 * 36 * 40

func init() {
	core.Register(&core.Monitor{
		ID:        "C01",
		Technique: "reference-model monitor: exact big.Rat column and vertical index, tolerance-banded closed-form Mercator row, exact range checks + concurrent scenarios (4-64 goroutines issuing the same judged calls at once) + hostile scheduler widths",
		Rule: "per case: zooms (h,v) in 0..35^2 and a list of 1-12 points (uniform in the domain; exactly on tile boundaries -180+360k/2^z and lat(k,z) and their Nextafter neighbours; domain edges lon=+-180, " +
			"nextafter(180,-inf), +-0, +-1e-300, lat=+-85.0511287798, 0; altitudes 0, +-2^25, +-tiny, exact multiples of 2^(25-v) and their neighbours, negative non-multiples; repeated points and list neighbours sharing a coordinate; 0.3 % of the lists have 1024..16384 points, lengths at and around multiples of 4096). " +
			"Oracle per element i: f exact (no tolerance), x exact with a 2^h*2^-49 band at boundaries, y closed form with a 2^h*8e-15 band, 0 <= x,y < 2^h without tolerance; same voxel from the spatial-ID form; length and order kept. " +
			"Directed: every (h,v) pair x 40 edge points. Non-trivial = h+v > 0; distinct by (points, h, v).",
		Assume:     []string{"closed-form row y = 2^h(1-asinh(tan lat)/pi)/2 evaluated in float64 is within 2^h*8e-15 of the real value", "latitude of a point is its stored (1e-10-truncated) value"},
		N:          func(t string) int64 { return c01Directed + tierN(150_000, 6_000_000)(t) },
		Floor:      tierN(1000, 10000),
		Run:        runC01,
		Exhaustive: func(string) []string { return []string{"all 1296 zoom pairs (h,v) x 40 directed edge points"} },
	})
}

var c01Lons = []float64{-180, 180, math.Nextafter(180, 0), math.Nextafter(-180, 0), 0, math.Copysign(0, -1), 1e-300, -1e-300, 90, -45.00000000000001}
var c01Lats = []float64{ref.MaxLat, -ref.MaxLat, 0, 1e-10, -66.5}
var c01Alts = []float64{0, math.Copysign(0, -1), 1 << 25, -(1 << 25), 4.9e-324, -4.9e-324, -0.001, -1, 1, 12345.678, -12345.678, math.Nextafter(1, 0), -math.Nextafter(1, 2)}

func genLon(r *core.Rng, h int64) float64 {
	switch r.Intn(8) {
	case 0:
		return c01Lons[r.Intn(len(c01Lons))]
	case 1, 2: // exactly on (or one ulp beside) a tile boundary of a random zoom
		z := h
		if r.Bool() {
			z = r.Range(0, 35)
		}
		k := r.Range(0, pow2(z))
		if r.P(0.3) {
			k = []int64{0, 1, pow2(z) - 1, pow2(z)}[r.Intn(4)]
		}
		b := float64(k)*360/float64(pow2(z)) - 180
		switch r.Intn(3) {
		case 0:
			b = up(b)
		case 1:
			b = down(b)
		}
		return math.Max(-180, math.Min(180, b))
	}
	return r.Uniform(-180, 180)
}

func genLat(r *core.Rng, h int64) float64 {
	switch r.Intn(10) {
	case 0:
		return c01Lats[r.Intn(len(c01Lats))]
	case 1:
		z := h
		if r.Bool() {
			z = r.Range(0, 35)
		}
		k := r.Range(0, pow2(z))
		b := ref.LatOfRow(float64(k), z)
		switch r.Intn(3) {
		case 0:
			b = up(b)
		case 1:
			b = down(b)
		}
		return math.Max(-ref.MaxLat, math.Min(ref.MaxLat, b))
	case 3:
		return r.Uniform(84.9, ref.MaxLat) * float64(2*r.Intn(2)-1)
	}
	return r.Uniform(-ref.MaxLat, ref.MaxLat)
}

func genAlt(r *core.Rng, v int64) float64 {
	res := math.Ldexp(1, int(25-v))
	switch r.Intn(8) {
	case 0:
		return c01Alts[r.Intn(len(c01Alts))]
	case 1, 2: // exact multiple of the resolution and its neighbours
		k := r.Range(-pow2(v), pow2(v))
		if r.P(0.3) {
			k = r.Range(-3, 3)
		}
		a := float64(k) * res
		switch r.Intn(3) {
		case 0:
			a = up(a)
		case 1:
			a = down(a)
		}
		return math.Max(-(1 << 25), math.Min(1<<25, a))
	case 3: // negative non-multiple (floor != truncation)
		return -r.Uniform(0, 1) * res * float64(1+r.Intn(5))
	case 4:
		return -r.Uniform(0, 1<<25)
	}
	return r.Uniform(-(1 << 25), 1<<25)
}

type pt struct{ lon, lat, alt float64 }

// judgePoint compares one returned ID with the reference voxel of point p (stored coordinates).
// Returns (class,msg) on violation; band=true if the point lies inside a tolerance band.
func judgePoint(p *object.Point, h, v int64, got string) (class, msg string, band bool) {
	id, err := ref.ParseExt(got)
	if err != nil {
		return "point-malformed", fmt.Sprintf("returned ID %q is malformed: %v", got, err), false
	}
	if id.H != h || id.V != v {
		return "point-zoom-fields", fmt.Sprintf("returned ID %q does not carry the requested zooms (%d,%d)", got, h, v), false
	}
	n := pow2(h)
	if id.X < 0 || id.X >= n || id.Y < 0 || id.Y >= n {
		return "point-index-range", fmt.Sprintf("returned ID %q for (%v,%v,%v): x or y outside [0,2^%d)", got, p.Lon(), p.Lat(), p.Alt(), h), false
	}
	if wf := ref.FIndexExact(p.Alt(), v); id.F != wf {
		cls := "point-f"
		if p.Alt() < 0 {
			cls = "point-f-below-ground"
		}
		return cls, fmt.Sprintf("alt %v at vZoom %d: f = %d, floor(alt*2^v/2^25) = %d", p.Alt(), v, id.F, wf), false
	}
	wx, frac := ref.XIndexExact(p.Lon(), h)
	if wx >= n { // only lon = 180 could do this and it is folded
		wx = n - 1
	}
	if id.X != wx {
		d := ref.XBand(h)
		// (a longitude exactly on a column boundary is a dyadic number: lon+180, the division by 360 and the
		// scaling are then all exact in float64, so there is nothing to tolerate)
		if !ref.OnColumnBoundary(p.Lon(), h) && frac <= d && (id.X == wx-1 || id.X == wx+1) && id.X >= 0 && id.X < n {
			band = true
		} else {
			return "point-x", fmt.Sprintf("lon %v at hZoom %d: x = %d, floor(2^h(lon+180)/360) = %d", p.Lon(), h, id.X, wx), false
		}
	}
	ylo, yhi := ref.YCandidates(p.Lat(), h)
	if ylo != yhi {
		band = true
	}
	if id.Y != ylo && id.Y != yhi {
		return "point-y", fmt.Sprintf("lat %v at hZoom %d: y = %d, closed-form Mercator row is %d..%d", p.Lat(), h, id.Y, ylo, yhi), false
	}
	return "", "", band
}

// c01TileRun: a run of 30..90 points inside one horizontal tile (what a "same tile as the previous point" shortcut
// learns from), then points on that tile's own edges - the edge longitudes exactly, the edge latitudes as the real
// values, as stored on the 1e-10 degree lattice, and one ulp either side - mixed with more interior points. Every
// element is judged on its own: the ID of a point does not depend on the points listed before it.
func c01TileRun(r *core.Rng, h, v int64) []pt {
	n := pow2(h)
	x, y := edgeIndex(r, n), edgeIndex(r, n)
	if r.P(0.3) && h >= 1 { // the rows next to the equator
		y = n/2 - int64(r.Intn(2))
	}
	west, east := ref.LonOfColExact(x, h), ref.LonOfColExact(x+1, h)
	north, south := ref.LatOfRow(float64(y), h), ref.LatOfRow(float64(y+1), h)
	clampLat := func(l float64) float64 { return math.Max(-ref.MaxLat, math.Min(ref.MaxLat, l)) }
	inside := func() pt {
		return pt{west + (east-west)*r.Uniform(0.05, 0.95), clampLat(south + (north-south)*r.Uniform(0.05, 0.95)), genAlt(r, v)}
	}
	var pts []pt
	for k := 30 + r.Intn(61); k > 0; k-- {
		pts = append(pts, inside())
	}
	lat10 := func(l float64) float64 { return math.Trunc(l*1e10) / 1e10 }
	edgeLats := []float64{north, south, lat10(north), lat10(south), up(lat10(south)), down(lat10(south)), up(lat10(north)), down(lat10(north)), lat10(south) + 1e-10, lat10(south) - 1e-10}
	edgeLons := []float64{west, east, up(west), down(east), down(west), up(east)}
	for k := 4 + r.Intn(12); k > 0; k-- {
		p := inside()
		switch r.Intn(4) {
		case 0:
			p.lat = clampLat(edgeLats[r.Intn(len(edgeLats))])
		case 1:
			p.lon = math.Max(-180, math.Min(180, edgeLons[r.Intn(len(edgeLons))]))
		case 2:
			p.lat = clampLat(edgeLats[r.Intn(len(edgeLats))])
			p.lon = math.Max(-180, math.Min(180, edgeLons[r.Intn(len(edgeLons))]))
		}
		pts = append(pts, p)
		if r.P(0.3) {
			pts = append(pts, inside())
		}
	}
	return pts
}

func runC01(c *core.Case) {
	r := c.R
	var h, v int64
	var pts []pt
	if c.I >= c01Directed && hammerWanted(c, c01Directed) {
		c01Hammer(c)
		return
	}
	if c.I < c01Directed {
		zp, e := c.I/40, c.I%40
		h, v = zp/36, zp%36
		pts = []pt{{c01Lons[e%int64(len(c01Lons))], c01Lats[(e/2)%int64(len(c01Lats))], c01Alts[e%int64(len(c01Alts))]}}
		if e >= 30 { // boundary of this very zoom
			k := []int64{0, 1, pow2(h) / 2, pow2(h) - 1}[e%4]
			pts[0].lon = math.Max(-180, math.Min(180, float64(k)*360/float64(pow2(h))-180))
			pts[0].alt = float64([]int64{-1, 0, 1, -pow2(v), pow2(v)}[e%5]) * math.Ldexp(1, int(25-v))
		}
		c.Tag("directed-edge-points")
	} else {
		h, v = genZoom(r), genZoom(r)
		n := 1 + r.Intn(12)
		if r.P(0.5) {
			n = 1
		}
		if r.P(0.0002) || (c.Tier == "thorough" && r.P(0.0003)) { // very long lists (2^15 .. 2^17 + 3 points)
			n = veryLongLen(r)
			c.Tag("very-long-list")
			c.Procs()
		} else if r.P(0.002) { // long lists around batch sizes (implementations that chunk or parallelise must keep length and order)
			n = longLen(r)
			c.Tag("long-list")
			c.Procs()
		}
		for i := 0; i < n; i++ {
			p := pt{genLon(r, h), genLat(r, h), genAlt(r, v)}
			if i > 0 {
				q := pts[r.Intn(i)]
				switch r.Intn(8) {
				case 0:
					p = q // repeated point
				case 1:
					p.lon = q.lon // same meridian
				case 2:
					p.lon, p.lat = q.lon, math.Max(-ref.MaxLat, math.Min(ref.MaxLat, q.lon)) // lat numerically equal to the previous lon
				case 3:
					p.lon, p.lat = q.lon, q.lat // vertical stack
				case 4, 5:
					// the two neighbours on the 1e-10 deg storage lattice that straddle a row boundary of this zoom, adjacent in
					// the list (they differ by less than 1e-10 as floats, yet lie in different rows)
					k := r.Range(1, pow2(h)-1)
					if h == 0 {
						k = 0
					}
					b := ref.LatOfRow(float64(k), h)
					t0 := math.Floor(b*1e10) / 1e10
					t1 := (math.Floor(b*1e10) + 1) / 1e10
					if r.Bool() {
						t0, t1 = t1, t0
					}
					if math.Abs(t0) <= ref.MaxLat && math.Abs(t1) <= ref.MaxLat && i == len(pts) {
						pts[i-1].lat = t0
						p.lat = t1
						if r.Bool() {
							p.lon = pts[i-1].lon
						}
					}
				}
			}
			pts = append(pts, p)
		}
	}
	if c.I >= c01Directed && r.P(0.03) {
		pts = c01TileRun(r, h, v)
		c.Tag("run-in-one-tile-then-its-edges")
	}
	var objs []*object.Point
	for _, p := range pts {
		o, err := object.NewPoint(p.lon, p.lat, p.alt)
		if err != nil {
			c.Fail("point-constructor", nil, "NewPoint(%v,%v,%v) refused an in-domain point: %v", p.lon, p.lat, p.alt, err)
			return
		}
		objs = append(objs, o)
		c.KF(p.lon, p.lat, p.alt)
	}
	c.KI(h, v)
	var got, gotSp []string
	var err error
	c.Desc = func() any {
		var ps []string
		for _, p := range pts {
			ps = append(ps, fmt.Sprintf("(%.17g, %.17g, %.17g)", p.lon, p.lat, p.alt))
		}
		return map[string]any{"points(lon,lat,alt)": ps, "hZoom": h, "vZoom": v, "extended": got, "spatial": gotSp, "error": fmt.Sprint(err)}
	}
	if h+v > 0 {
		c.NonTrivial()
	}
	got, err = shape.GetExtendedSpatialIdsOnPoints(objs, h, v)
	c.Call()
	if err != nil {
		c.Fail("point-error", nil, "GetExtendedSpatialIdsOnPoints returned %v for valid points and zooms (%d,%d)", err, h, v)
		return
	}
	if len(got) != len(objs) {
		c.Fail("point-list-length", nil, "%d points in, %d IDs out", len(objs), len(got))
		return
	}
	band := false
	nBand := 0
	below := false
	for i, o := range objs {
		if o.Lon() != pts[i].lon || o.Alt() != pts[i].alt || math.Abs(o.Lat()-pts[i].lat) > 1.1e-10 {
			c.Fail("input-modified", nil, "point %d was modified by the call", i)
			return
		}
		cls, msg, b := judgePoint(o, h, v, got[i])
		if cls != "" {
			c.Fail(cls, nil, "element %d of %d: %s", i, len(objs), msg)
			return
		}
		band = band || b
		c.Obs("elements_judged", 1)
		if b {
			c.Obs("elements_in_band", 1)
			nBand++
		}
		if o.Alt() < 0 {
			below = true
		}
	}
	if below {
		c.Tag("below-ground")
	}
	if band {
		c.Tag("in-band")
	}
	// spatial-ID form: same voxel with h = v = z, in z/f/x/y order
	z := h
	gotSp, err = shape.GetSpatialIdsOnPoints(objs, z)
	c.Call()
	if err != nil || len(gotSp) != len(objs) {
		c.Fail("point-spatial-form", nil, "GetSpatialIdsOnPoints(..,%d) = %d IDs, err %v", z, len(gotSp), err)
		return
	}
	ext2, err2 := shape.GetExtendedSpatialIdsOnPoints(objs, z, z)
	c.Call()
	if err2 != nil {
		c.Fail("point-error", nil, "GetExtendedSpatialIdsOnPoints(..,%d,%d) returned %v", z, z, err2)
		return
	}
	for i := range objs {
		a, e := ref.ParseSpatial(gotSp[i])
		if e != nil {
			c.Fail("point-spatial-form", nil, "spatial ID %q malformed: %v", gotSp[i], e)
			return
		}
		if a.Ext() != ext2[i] {
			c.Fail("point-spatial-form", nil, "element %d: spatial form %q names voxel %s, extended form at the same zoom says %s", i, gotSp[i], a.Ext(), ext2[i])
			return
		}
		if cls, msg, _ := judgePoint(objs[i], z, z, a.Ext()); cls != "" {
			c.Fail(cls+"-spatial", nil, "spatial form, element %d: %s", i, msg)
			return
		}
	}
	if nBand == len(objs) {
		// every element sits inside a tolerance band: each lies on an admissible side, but the boundary decision
		// cannot be attributed, so the case is reported as inconclusive(band) rather than held. Cases with some
		// banded elements count as held for the other elements (elements_in_band is reported in the evidence).
		c.Inconclusive("band")
	}
}
