package props

import (
	"fmt"
	"math"
	"math/big"

	"github.com/trajectoryjp/spatial_id_go/v4/common"
	"github.com/trajectoryjp/spatial_id_go/v4/common/spatial"

	"verifmon/core"
)

// C20 — the exported helper algebra obeys its mathematical laws.

const c20Comb = 91 // all 0 <= k <= n <= 12

func init() {
	core.Register(&core.Monitor{
		ID:        "C20",
		Technique: "reference-model monitor (map-based sets, big-integer shifts, direct vector formulas) on the exported helpers",
		Rule: "per case one helper family chosen by the PRNG: set helpers (Union/Intersect/Difference/Unique/Include on []int, []int64, []string, []float64 and a struct, with duplicates and empty slices, inputs compared with copies), " +
			"Max/Min (int, int64, float64; empty input), CalculateArithmeticShift vs floor(index*2^shift) in big.Int for |shift| < 63 without overflow (|index| up to 2^62), " +
			"vector/line/matrix identities at moderate magnitudes, RotateBetweenVector on generic, parallel, exactly opposite and nearly opposite (angle deviation 1e-9..1e-1) pairs, QuatFromAxisAngle. " +
			"Directed: Combinations(n,k) for all 0<=k<=n<=12 (count, strictly increasing tuples, lexicographic order). Non-trivial = non-empty operands; distinct by operands.",
		Assume:     []string{"tolerances: vector formulas relative 1e-12, matrix identities relative 1e-10 of the norms, rotation |q|=1 within 1e-5 and direction within 5e-5 (the anti-parallel branch switches at cos+1 < 1e-10, i.e. 1.4e-5 rad)"},
		N:          func(t string) int64 { return c20Comb + tierN(250_000, 8_000_000)(t) },
		Floor:      tierN(1000, 10000),
		Run:        runC20,
		Exhaustive: func(string) []string { return []string{"Combinations(n,k,f) for all 0 <= k <= n <= 12 (91 pairs)"} },
	})
}

func binom(n, k int64) int64 {
	r := int64(1)
	for i := int64(1); i <= k; i++ {
		r = r * (n - k + i) / i
	}
	return r
}

func c20Combinations(c *core.Case) {
	i := c.I
	var n, k int64
	for n = 0; n <= 12; n++ {
		if i <= n {
			k = i
			break
		}
		i -= n + 1
	}
	c.KI(n, k)
	c.NonTrivial()
	c.Tag("combinations")
	c.Desc = func() any { return map[string]any{"Combinations": []int64{n, k}} }
	var all [][]int64
	common.Combinations(n, k, func(p []int64) { all = append(all, append([]int64{}, p...)) })
	c.Call()
	if int64(len(all)) != binom(n, k) {
		c.Fail("combinations-count", nil, "Combinations(%d,%d) visited %d subsets, want C(n,k) = %d", n, k, len(all), binom(n, k))
		return
	}
	for j, p := range all {
		if int64(len(p)) != k {
			c.Fail("combinations-size", nil, "Combinations(%d,%d): tuple %v has the wrong size", n, k, p)
			return
		}
		for q := range p {
			if p[q] < 0 || p[q] >= n || (q > 0 && p[q] <= p[q-1]) {
				c.Fail("combinations-tuple", nil, "Combinations(%d,%d): tuple %v is not strictly increasing within [0,n)", n, k, p)
				return
			}
		}
		if j > 0 {
			prev := all[j-1]
			less := false
			for q := range p {
				if prev[q] != p[q] {
					less = prev[q] < p[q]
					break
				}
			}
			if !less {
				c.Fail("combinations-order", nil, "Combinations(%d,%d): %v does not follow %v lexicographically", n, k, p, prev)
				return
			}
		}
	}
	// the same enumeration with a callback that appends to the slice it is handed (append(subset, x) is what a caller
	// building a larger tuple writes; it never changes the elements of the subset itself)
	var again [][]int64
	runaway := false
	func() {
		defer func() {
			if recover() != nil {
				runaway = true
			}
		}()
		common.Combinations(n, k, func(p []int64) {
			if len(again) > len(all)+4 {
				panic("too many visits")
			}
			again = append(again, append([]int64{}, p...))
			_ = append(p, int64(len(again))-3)
		})
	}()
	c.Call()
	same := !runaway && len(again) == len(all)
	for j := 0; same && j < len(all); j++ {
		for q := range all[j] {
			if len(again[j]) != len(all[j]) || again[j][q] != all[j][q] {
				same = false
			}
		}
	}
	if !same {
		c.Fail("combinations-callback-append", nil, "Combinations(%d,%d) with a callback that appends to its argument visits %d subsets (first %v), with a read-only callback %d", n, k, len(again), trunc2(again, 4), len(all))
	}
}

func trunc2(l [][]int64, n int) [][]int64 {
	if len(l) > n {
		return l[:n]
	}
	return l
}

type c20S struct {
	A int
	B string
}

func setLaws[T comparable](c *core.Case, name string, l1, l2 []T) bool {
	// the operands may be windows of longer arrays (spare capacity): compare the whole backing arrays afterwards
	c1, c2 := append([]T{}, l1[:cap(l1)]...), append([]T{}, l2[:cap(l2)]...)
	in := func(l []T) map[T]bool {
		m := map[T]bool{}
		for _, x := range l {
			m[x] = true
		}
		return m
	}
	m1, m2 := in(l1), in(l2)
	asSet := func(l []T) (map[T]bool, bool) {
		m := map[T]bool{}
		dup := false
		for _, x := range l {
			if m[x] {
				dup = true
			}
			m[x] = true
		}
		return m, dup
	}
	eq := func(a, b map[T]bool) bool {
		if len(a) != len(b) {
			return false
		}
		for k := range a {
			if !b[k] {
				return false
			}
		}
		return true
	}
	u, du := asSet(common.Union(l1, l2))
	wantU := map[T]bool{}
	for k := range m1 {
		wantU[k] = true
	}
	for k := range m2 {
		wantU[k] = true
	}
	if !eq(u, wantU) || du {
		c.Fail("helper-union", nil, "%s: Union(%v,%v) = %v (duplicates %v)", name, l1, l2, common.Union(l1, l2), du)
		return false
	}
	d := common.Difference(l1, l2)
	ds, _ := asSet(d)
	wantD := map[T]bool{}
	for k := range m1 {
		if !m2[k] {
			wantD[k] = true
		}
	}
	if !eq(ds, wantD) {
		c.Fail("helper-difference", nil, "%s: Difference(%v,%v) = %v", name, l1, l2, d)
		return false
	}
	is := common.Intersect(l1, l2)
	iset, _ := asSet(is)
	wantI := map[T]bool{}
	for k := range m1 {
		if m2[k] {
			wantI[k] = true
		}
	}
	if !eq(iset, wantI) {
		c.Fail("helper-intersect", nil, "%s: Intersect(%v,%v) = %v", name, l1, l2, is)
		return false
	}
	un := common.Unique(l1)
	us, dun := asSet(un)
	if !eq(us, m1) || dun {
		c.Fail("helper-unique", nil, "%s: Unique(%v) = %v", name, l1, un)
		return false
	}
	for _, x := range l2 {
		if common.Include(l1, x) != m1[x] {
			c.Fail("helper-include", nil, "%s: Include(%v,%v) = %v", name, l1, x, common.Include(l1, x))
			return false
		}
	}
	c.Calls(4 + len(l2))
	for i, x := range l1[:cap(l1)] {
		if c1[i] != x {
			c.Fail("input-modified", nil, "%s: a set helper modified its first argument (or the array behind it: position %d of %d, length %d)", name, i, cap(l1), len(l1))
			return false
		}
	}
	for i, x := range l2[:cap(l2)] {
		if c2[i] != x {
			c.Fail("input-modified", nil, "%s: a set helper modified its second argument (or the array behind it: position %d of %d, length %d)", name, i, cap(l2), len(l2))
			return false
		}
	}
	return true
}

func relClose(a, b, tol, scale float64) bool {
	return math.Abs(a-b) <= tol*math.Max(scale, 1e-300)
}

func genVec(r *core.Rng) spatial.Vector3 {
	mag := math.Pow(10, r.Uniform(-3, 4))
	v := spatial.Vector3{X: r.Norm() * mag, Y: r.Norm() * mag, Z: r.Norm() * mag}
	switch r.Intn(10) {
	case 0:
		v = spatial.Vector3{X: mag}
	case 1:
		v = spatial.Vector3{Y: -mag}
	case 2:
		v = spatial.Vector3{Z: mag}
	case 3:
		v.Z = 0
	}
	if v.X == 0 && v.Y == 0 && v.Z == 0 {
		v.X = 1
	}
	return v
}

func vclose(a, b spatial.Vector3, tol, scale float64) bool {
	return relClose(a.X, b.X, tol, scale) && relClose(a.Y, b.Y, tol, scale) && relClose(a.Z, b.Z, tol, scale)
}

// rotate v by quaternion q (q v q*), computed here with the standard formula.
func qrot(q spatial.Quat, v spatial.Vector3) spatial.Vector3 {
	// t = 2 * (q.xyz x v); v' = v + w*t + q.xyz x t
	qx, qy, qz, w := q.X, q.Y, q.Z, q.W
	tx := 2 * (qy*v.Z - qz*v.Y)
	ty := 2 * (qz*v.X - qx*v.Z)
	tz := 2 * (qx*v.Y - qy*v.X)
	return spatial.Vector3{
		X: v.X + w*tx + (qy*tz - qz*ty),
		Y: v.Y + w*ty + (qz*tx - qx*tz),
		Z: v.Z + w*tz + (qx*ty - qy*tx),
	}
}

func runC20(c *core.Case) {
	if c.I < c20Comb {
		c20Combinations(c)
		return
	}
	r := c.R
	switch r.Intn(6) {
	case 0: // set helpers
		c.Tag("set-helpers")
		n1, n2 := r.Intn(9), r.Intn(9)
		span := int64(1 + r.Intn(12))
		li1, li2 := make([]int, n1), make([]int, n2)
		l641, l642 := make([]int64, n1), make([]int64, n2)
		ls1, ls2 := make([]string, n1), make([]string, n2)
		lf1, lf2 := make([]float64, n1), make([]float64, n2)
		lt1, lt2 := make([]c20S, n1), make([]c20S, n2)
		for i := 0; i < n1; i++ {
			v := r.Range(-span, span)
			li1[i], l641[i], ls1[i], lf1[i], lt1[i] = int(v), v<<33, fmt.Sprint("id", v), float64(v)/4, c20S{int(v), fmt.Sprint(v % 3)}
			c.KI(v)
		}
		for i := 0; i < n2; i++ {
			v := r.Range(-span, span)
			li2[i], l642[i], ls2[i], lf2[i], lt2[i] = int(v), v<<33, fmt.Sprint("id", v), float64(v)/4, c20S{int(v), fmt.Sprint(v % 3)}
			c.KI(v)
		}
		c.Desc = func() any { return map[string]any{"l1": li1, "l2": li2} }
		if n1+n2 > 0 {
			c.NonTrivial()
		}
		if r.P(0.3) && n1 > 1 && n2 > 1 {
			// operands that are windows of longer arrays: the elements behind the window are the caller's too
			k1, k2 := 1+r.Intn(n1-1), 1+r.Intn(n2-1)
			li1, l641, ls1, lf1, lt1 = li1[:k1], l641[:k1], ls1[:k1], lf1[:k1], lt1[:k1]
			li2, l642, ls2, lf2, lt2 = li2[:k2], l642[:k2], ls2[:k2], lf2[:k2], lt2[:k2]
			c.Tag("operands-with-spare-capacity")
		}
		if r.P(0.0006) || (c.Tier == "thorough" && r.P(0.0006)) { // very long operands
			n := veryLongLen(r)
			v1, v2 := make([]int64, n), make([]int64, n/2+3)
			for i := range v1 {
				v1[i] = r.Range(-int64(n), int64(n))
			}
			for i := range v2 {
				v2[i] = r.Range(-int64(n), int64(n))
			}
			c.Tag("very-long-lists")
			c.Procs()
			if !setLaws(c, "[]int64(very long)", v1, v2[:64]) || !setLaws(c, "[]int64(very long, swapped)", v2[:64], v1) {
				return
			}
			u, _ := func() (map[int64]bool, bool) {
				m := map[int64]bool{}
				for _, x := range common.Union(v1, v2) {
					m[x] = true
				}
				return m, true
			}()
			for _, x := range v2[len(v2)-7:] {
				if !u[x] {
					c.Fail("helper-union", nil, "Union of lists with %d and %d elements lacks %d (one of the last elements of the second list)", len(v1), len(v2), x)
					return
				}
			}
			for _, x := range v1[len(v1)-7:] {
				if !u[x] {
					c.Fail("helper-union", nil, "Union of lists with %d and %d elements lacks %d (one of the last elements of the first list)", len(v1), len(v2), x)
					return
				}
			}
		}
		if r.P(0.03) {
			// long lists (above typical pooling thresholds) right after a call whose input contained NaN: NaN keys cannot be
			// deleted from a map, so scratch state reused across calls would leak them. The NaN call itself is not judged.
			big1, big2 := make([]float64, 700), make([]float64, 650)
			for i := range big1 {
				big1[i] = float64(r.Range(-300, 300)) / 8
			}
			for i := range big2 {
				big2[i] = float64(r.Range(-300, 300)) / 8
			}
			withNaN := append(append([]float64{}, big1...), math.NaN(), math.NaN())
			common.Unique(withNaN)
			common.Union(withNaN, big2)
			common.Difference(withNaN, big2)
			common.Intersect(withNaN, big2)
			c.Calls(4)
			c.Tag("long-lists-after-nan-call")
			if !setLaws(c, "[]float64(700)", big1, big2) {
				return
			}
		}
		_ = setLaws(c, "[]int", li1, li2) && setLaws(c, "[]int64", l641, l642) && setLaws(c, "[]string", ls1, ls2) &&
			setLaws(c, "[]float64", lf1, lf2) && setLaws(c, "[]struct", lt1, lt2)
	case 1: // Max / Min
		c.Tag("max-min")
		n := r.Intn(8)
		li := make([]int64, n)
		lf := make([]float64, n)
		lint := make([]int, n)
		for i := range li {
			li[i] = r.Range(-(1 << 62), 1<<62)
			if r.Bool() {
				li[i] = r.Range(-5, 5)
			}
			lf[i] = float64(li[i]) * 0.37
			lint[i] = int(li[i] >> 8)
			c.KI(li[i])
		}
		if n >= 2 && r.P(0.25) {
			// elements that differ but round to the same float64 (beyond 2^53, at the ends of int64), the extreme one last
			base := []int64{1 << 53, -(1 << 53), 1 << 62, math.MaxInt64 - 1024, math.MinInt64 + 1024, 1<<60 + 12345}[r.Intn(6)]
			for i := range li {
				li[i] = base + r.Range(-3, 3)
				lint[i] = int(li[i])
				c.KI(li[i])
			}
			if r.Bool() {
				li[n-1], lint[n-1] = base+5, int(base+5)
			} else {
				li[n-1], lint[n-1] = base-5, int(base-5)
			}
			c.Tag("max-min-beyond-2^53")
		}
		c.Desc = func() any { return map[string]any{"list": li} }
		mx, e1 := common.Max(li)
		mn, e2 := common.Min(li)
		fx, e3 := common.Max(lf)
		fn, e4 := common.Min(lf)
		ix, e5 := common.Max(lint)
		in, e6 := common.Min(lint)
		c.Calls(6)
		if n == 0 {
			if e1 == nil || e2 == nil || e3 == nil || e4 == nil || e5 == nil || e6 == nil || mx != 0 || mn != 0 || fx != 0 || fn != 0 || ix != 0 || in != 0 {
				c.Fail("maxmin-empty", nil, "Max/Min of an empty slice must return an error and the zero value")
			}
			c.KI(int64(c.I)) // empty input: distinct only by index
			return
		}
		c.NonTrivial()
		if e1 != nil || e2 != nil || e3 != nil || e4 != nil || e5 != nil || e6 != nil {
			c.Fail("maxmin-error", nil, "Max/Min returned an error on a non-empty slice")
			return
		}
		okx, okn := false, false
		for i, v := range li {
			if v > mx || v < mn || lf[i] > fx || lf[i] < fn || lint[i] > ix || lint[i] < in {
				c.Fail("maxmin-bound", nil, "Max/Min(%v) = %d/%d does not bound element %d", li, mx, mn, v)
				return
			}
			okx = okx || v == mx
			okn = okn || v == mn
		}
		if !okx || !okn {
			c.Fail("maxmin-element", nil, "Max/Min(%v) = %d/%d is not an element", li, mx, mn)
		}
	case 2: // arithmetic shift
		c.Tag("arithmetic-shift")
		s := r.Range(-62, 62)
		var idx int64
		switch r.Intn(5) {
		case 0:
			idx = r.Range(-40, 40)
		case 1:
			idx = r.Range(-(1 << 62), 1<<62)
		case 2:
			idx = -pow2(r.Range(0, 62)) + r.Range(-1, 1)
		case 3:
			idx = pow2(r.Range(0, 62)) + r.Range(-1, 1)
		default:
			idx = r.Range(-(1 << 40), 1<<40)
		}
		want := new(big.Int)
		if s >= 0 {
			want.Lsh(big.NewInt(idx), uint(s))
			if !want.IsInt64() { // overflow: outside the quantifier, shrink the shift
				for s > 0 && !new(big.Int).Lsh(big.NewInt(idx), uint(s)).IsInt64() {
					s--
				}
				want.Lsh(big.NewInt(idx), uint(s))
			}
		} else {
			want.Rsh(big.NewInt(idx), uint(-s)) // big.Int Rsh rounds toward minus infinity
		}
		got := common.CalculateArithmeticShift(idx, s)
		c.Call()
		c.KI(idx, s)
		c.NonTrivial()
		c.Desc = func() any {
			return map[string]any{"index": idx, "shift": s, "got": got, "floor(index*2^shift)": want.String()}
		}
		if idx < 0 && s < 0 {
			c.Tag("shift-negative-index-down")
		}
		if got != want.Int64() {
			c.Fail("arithmetic-shift", nil, "CalculateArithmeticShift(%d,%d) = %d, floor(index*2^shift) = %v", idx, s, got, want)
		}
	case 3: // vectors and lines
		c.Tag("vectors-lines")
		a, b := genVec(r), genVec(r)
		f := r.Uniform(-5, 5)
		c.KF(a.X, a.Y, a.Z, b.X, b.Y, b.Z, f)
		c.NonTrivial()
		c.Desc = func() any { return map[string]any{"a": a, "b": b, "f": f} }
		sc := math.Max(a.Norm(), b.Norm())
		chk := func(name string, ok bool) bool {
			if !ok {
				c.Fail("vector-"+name, nil, "vector identity %s violated for a=%v b=%v f=%v", name, a, b, f)
			}
			return ok
		}
		nrm := math.Sqrt(a.X*a.X + a.Y*a.Y + a.Z*a.Z)
		dot := a.X*b.X + a.Y*b.Y + a.Z*b.Z
		cr := spatial.Vector3{X: a.Y*b.Z - a.Z*b.Y, Y: a.Z*b.X - a.X*b.Z, Z: a.X*b.Y - a.Y*b.X}
		u := a.Unit()
		c.Calls(12)
		_ = chk("add", a.Add(b) == spatial.Vector3{X: a.X + b.X, Y: a.Y + b.Y, Z: a.Z + b.Z}) &&
			chk("sub", a.Sub(b) == spatial.Vector3{X: a.X - b.X, Y: a.Y - b.Y, Z: a.Z - b.Z}) &&
			chk("scale", a.Scale(f) == spatial.Vector3{X: a.X * f, Y: a.Y * f, Z: a.Z * f}) &&
			chk("dot", relClose(a.Dot(b), dot, 1e-12, sc*sc)) &&
			chk("cross", vclose(a.Cross(b), cr, 1e-12, sc*sc)) &&
			chk("norm", relClose(a.Norm(), nrm, 1e-12, nrm)) &&
			chk("l1norm", relClose(a.L1Norm(), math.Abs(a.X)+math.Abs(a.Y)+math.Abs(a.Z), 1e-12, nrm)) &&
			chk("unit", relClose(u.Norm(), 1, 1e-12, 1) && vclose(u.Scale(nrm), a, 1e-12, nrm)) &&
			chk("cos", relClose(a.Cos(b), dot/(nrm*b.Norm()), 1e-10, 1)) &&
			chk("from-points", spatial.NewVectorFromPoints(spatial.Point3(a), spatial.Point3(b)) == b.Sub(a))
		if c.Failed() {
			return
		}
		// the cosine does not depend on the lengths: the same pair scaled down to lengths of 1e-7 .. 1e-3
		ks, kb := math.Pow(10, -r.Uniform(3, 7))/nrm, math.Pow(10, -r.Uniform(3, 7))/b.Norm()
		as, bs := a.Scale(ks), b.Scale(kb)
		c.Calls(2)
		_ = chk("cos-scale-invariance", relClose(as.Cos(bs), dot/(nrm*b.Norm()), 1e-9, 1)) &&
			chk("cos-self", relClose(as.Cos(as), 1, 1e-12, 1))
		if c.Failed() {
			return
		}
		p, q := spatial.Point3(a), spatial.Point3(b)
		ln := spatial.NewLineFromPoints(p, q)
		_ = chk("line-start", ln.ToPoint(0) == p && ln.Start() == p) &&
			chk("line-end", vclose(spatial.Vector3(ln.ToPoint(1)), b, 1e-12, sc) && vclose(spatial.Vector3(ln.End()), b, 1e-12, sc)) &&
			chk("line-mid", vclose(spatial.Vector3(ln.ToPoint(0.5)), spatial.Vector3{X: (a.X + b.X) / 2, Y: (a.Y + b.Y) / 2, Z: (a.Z + b.Z) / 2}, 1e-12, sc)) &&
			chk("translate", p.Translate(b.Sub(a)).IsClose(q, 1e-12*sc+1e-300)) &&
			chk("distance", relClose(p.DistancePoint(q), b.Sub(a).Norm(), 1e-12, sc))
		if c.Failed() {
			return
		}
		// point helpers: extreme points along a direction, epsilon-unique append
		var pts []*spatial.Point3
		for k := r.Intn(6); k > 0; k-- {
			v := genVec(r)
			pts = append(pts, &spatial.Point3{X: v.X, Y: v.Y, Z: v.Z})
		}
		dir := genVec(r)
		mx, e1 := spatial.MaxPoint(pts, dir)
		mn, e2 := spatial.MinPoint(pts, dir)
		c.Calls(2)
		if len(pts) == 0 {
			chk("maxpoint-empty", e1 != nil && e2 != nil && mx != nil && mn != nil && *mx == spatial.Point3{} && *mn == spatial.Point3{})
		} else if chk("maxpoint-error", e1 == nil && e2 == nil) {
			okx, okn := false, false
			for _, x := range pts {
				d := spatial.Vector3(*x).Dot(dir)
				if d > spatial.Vector3(*mx).Dot(dir) || d < spatial.Vector3(*mn).Dot(dir) {
					chk("maxpoint-bound", false)
					return
				}
				okx = okx || x == mx
				okn = okn || x == mn
			}
			chk("maxpoint-element", okx && okn)
		}
		if len(pts) > 0 {
			eps := 1e-9 * sc
			near := &spatial.Point3{X: pts[0].X + eps/2, Y: pts[0].Y, Z: pts[0].Z}
			far := &spatial.Point3{X: pts[0].X + 1e6*sc + 1, Y: pts[0].Y, Z: pts[0].Z}
			n0 := len(pts)
			l1 := spatial.UniqueAppend(pts, near, eps)
			l2 := spatial.UniqueAppend(pts, far, eps)
			c.Calls(2)
			isFarNew := true
			for _, x := range pts {
				if x.IsClose(*far, eps) {
					isFarNew = false
				}
			}
			chk("unique-append", len(l1) == n0 && (len(l2) == n0+1) == isFarNew)
		}
	case 4: // matrices
		c.Tag("matrices")
		gm := func() spatial.Matrix3 {
			var m spatial.Matrix3
			for i := 0; i < 3; i++ {
				for j := 0; j < 3; j++ {
					m[i][j] = r.Uniform(-10, 10)
					c.KF(m[i][j])
				}
			}
			return m
		}
		A, B, C := gm(), gm(), gm()
		// structured operands: identity, diagonal, unit triangular (shear), permutation, rotation about z
		st := func() spatial.Matrix3 {
			p, q, t := float64(r.Range(-4, 4)), float64(r.Range(-4, 4)), float64(r.Range(-4, 4))
			switch r.Intn(6) {
			case 0:
				return spatial.NewUnitMatrix3()
			case 1:
				return spatial.NewMatrix3(p, 0, 0, 0, q, 0, 0, 0, t)
			case 2:
				return spatial.NewMatrix3(1, 0, 0, p, 1, 0, q, t, 1) // unit lower triangular
			case 3:
				return spatial.NewMatrix3(1, p, q, 0, 1, t, 0, 0, 1) // unit upper triangular
			case 4:
				return spatial.NewMatrix3(0, 1, 0, 0, 0, 1, 1, 0, 0)
			}
			a := r.Uniform(-3, 3)
			return spatial.NewMatrix3(math.Cos(a), -math.Sin(a), 0, math.Sin(a), math.Cos(a), 0, 0, 0, 1)
		}
		if r.P(0.5) {
			switch r.Intn(3) {
			case 0:
				A = st()
			case 1:
				B = st()
			default:
				A, B = st(), st()
			}
			c.Tag("structured-matrices")
		}
		v := genVec(r)
		c.NonTrivial()
		c.Desc = func() any { return map[string]any{"A": A, "B": B, "C": C, "v": v} }
		l, rr := A.Mul(B).Mul(C), A.Mul(B.Mul(C))
		c.Calls(8)
		for i := 0; i < 3; i++ {
			for j := 0; j < 3; j++ {
				if !relClose(l[i][j], rr[i][j], 1e-10, 3000) {
					c.Fail("matrix-associative", nil, "(AB)C != A(BC) at [%d][%d]: %v vs %v", i, j, l[i][j], rr[i][j])
					return
				}
				want := A[i][0]*B[0][j] + A[i][1]*B[1][j] + A[i][2]*B[2][j]
				if !relClose(A.Mul(B)[i][j], want, 1e-12, 300) {
					c.Fail("matrix-product", nil, "(AB)[%d][%d] = %v, want %v", i, j, A.Mul(B)[i][j], want)
					return
				}
			}
		}
		vn := v.Norm()
		if !vclose(A.Mul(B).MulVec(v), A.MulVec(B.MulVec(v)), 1e-10, 300*vn) {
			c.Fail("matrix-vector", nil, "(AB)v != A(Bv)")
			return
		}
		I := spatial.NewUnitMatrix3()
		if A.Mul(I) != A || I.Mul(A) != A || I.MulVec(v) != v {
			c.Fail("matrix-unit", nil, "unit matrix is not neutral")
			return
		}
		want := spatial.Vector3{X: A[0][0]*v.X + A[0][1]*v.Y + A[0][2]*v.Z, Y: A[1][0]*v.X + A[1][1]*v.Y + A[1][2]*v.Z, Z: A[2][0]*v.X + A[2][1]*v.Y + A[2][2]*v.Z}
		if !vclose(A.MulVec(v), want, 1e-12, 30*vn) {
			c.Fail("matrix-vector", nil, "Av = %v, want %v", A.MulVec(v), want)
		}
	case 5: // rotations
		a := genVec(r)
		var b spatial.Vector3
		kind := r.Intn(6)
		switch kind {
		case 0:
			b = genVec(r)
			c.Tag("rotation-generic")
		case 1:
			b = a.Scale(r.Uniform(0.1, 10))
			c.Tag("rotation-parallel")
		case 2:
			if r.P(0.3) { // nearly along one axis: one or two components tiny, down to the smallest subnormal
				tiny := []float64{5e-324, 1e-310, 1e-308, 1e-300, 1e-200, 1e-160, 1e-20}
				comp := [3]float64{tiny[r.Intn(len(tiny))] * float64(1-2*r.Intn(2)), 0, r.Uniform(0.1, 10) * float64(1-2*r.Intn(2))}
				if r.Bool() {
					comp[1] = tiny[r.Intn(len(tiny))]
				}
				p := r.Perm(3)
				a = spatial.Vector3{X: comp[p[0]], Y: comp[p[1]], Z: comp[p[2]]}
				c.Tag("rotation-opposite-subnormal-component")
			}
			b = a.Scale(-r.Uniform(0.1, 10))
			if r.P(0.3) {
				b = a.Scale(-1)
			}
			c.Tag("rotation-opposite")
		case 3, 4: // nearly opposite: -a rotated by a small angle delta about a perpendicular axis
			delta := math.Pow(10, r.Uniform(-9, -1))
			perp := a.Cross(spatial.Vector3{X: 0.3, Y: -0.7, Z: 0.64})
			if perp.Norm() < 1e-9*a.Norm() {
				perp = a.Cross(spatial.Vector3{X: 1})
			}
			perp = perp.Unit().Scale(a.Norm())
			b = a.Scale(-math.Cos(delta)).Add(perp.Scale(math.Sin(delta)))
			c.Tag("rotation-nearly-opposite")
			c.KF(delta)
		default: // axis aligned
			ax := []spatial.Vector3{{X: 1}, {Y: 1}, {Z: 1}, {X: -1}, {Y: -1}, {Z: -1}}
			a, b = ax[r.Intn(6)], ax[r.Intn(6)]
			c.Tag("rotation-axis-aligned")
		}
		c.KF(a.X, a.Y, a.Z, b.X, b.Y, b.Z)
		c.NonTrivial()
		q := spatial.RotateBetweenVector(a, b)
		c.Call()
		au, bu := a.Unit(), b.Unit()
		rot := qrot(q, au)
		c.Desc = func() any {
			return map[string]any{"start": a, "end": b, "quat": q, "rotated_start_unit": rot, "end_unit": bu}
		}
		qn := math.Sqrt(q.W*q.W + q.X*q.X + q.Y*q.Y + q.Z*q.Z)
		if math.IsNaN(qn) || math.Abs(qn-1) > 1e-5 {
			c.Fail("rotation-unit", nil, "RotateBetweenVector(%v,%v) = %v has norm %v", a, b, q, qn)
			return
		}
		if d := rot.Sub(bu).Norm(); !(d <= 5e-5) {
			c.Fail("rotation-direction", nil, "RotateBetweenVector(%v,%v): rotating the start direction gives %v, end direction is %v (distance %.3g)", a, b, rot, bu, d)
			return
		}
		// QuatFromAxisAngle: unit, rotates a perpendicular vector by the angle
		axis := genVec(r)
		ang := r.Uniform(-math.Pi, math.Pi)
		qa := spatial.QuatFromAxisAngle(axis, ang)
		c.Call()
		if n := math.Sqrt(qa.W*qa.W + qa.X*qa.X + qa.Y*qa.Y + qa.Z*qa.Z); math.Abs(n-1) > 1e-12 {
			c.Fail("axis-angle-unit", nil, "QuatFromAxisAngle(%v,%v) has norm %v", axis, ang, n)
			return
		}
		p := axis.Cross(spatial.Vector3{X: 0.3, Y: -0.7, Z: 0.64})
		if p.Norm() > 1e-6*axis.Norm() {
			p = p.Unit()
			rp := qrot(qa, p)
			cosA := rp.Dot(p)
			sinA := p.Cross(rp).Dot(axis.Unit())
			if math.Abs(cosA-math.Cos(ang)) > 1e-9 || math.Abs(sinA-math.Sin(ang)) > 1e-9 || math.Abs(rp.Dot(axis.Unit())) > 1e-9 {
				c.Fail("axis-angle-rotation", nil, "QuatFromAxisAngle(%v,%v) rotates a perpendicular vector by cos %v sin %v", axis, ang, cosA, sinA)
			}
		}
	}
}
