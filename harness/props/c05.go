package props

import (
	"fmt"
	"os"

	"github.com/trajectoryjp/spatial_id_go/v4/detector"

	"verifmon/core"
	"verifmon/ref"
)

// C05 — overlap detection answers exactly whether two voxel sets intersect.
func init() {
	core.Register(&core.Monitor{
		ID:        "C05",
		Technique: "reference-model monitor (ancestor-or-equal on both axes) + symmetry/self/array-vs-pairwise relations between calls + concurrent scenarios (4-64 goroutines issuing the same judged calls at once) + hostile scheduler widths",
		Rule: "per case: a pair of valid IDs generated relationally (identical, ancestor, descendant, sibling of an ancestor differing in exactly one axis, descendant of a sibling, unrelated), " +
			"mixed zooms per axis, negative f, sub-metre zooms; extended form on any IDs, spatial (radix tree) form on h==v IDs with z>=1 and f inside the +-2^24 m window incl. its top and bottom index; " +
			"both argument orders, self-overlap, and list pairs of 0-6 IDs (incl. empty first/second/both) compared with the OR of the pairwise oracle. " +
			"Non-trivial = the two IDs differ; distinct by (id1,id2,lists). Both tiers start with the exhaustive sweep of all ordered pairs of IDs with h,v <= 2.",
		Assume: []string{"reference: overlap(a,b) iff on each axis one index is the floor ancestor-or-equal of the other", "spatial form is only judged inside the documented altitude window (outside it the documented outcome is an error, judged by C15)"},
		N:      func(t string) int64 { return c05Exhaustive() + tierN(150_000, 6_000_000)(t) },
		Exhaustive: func(string) []string {
			return []string{"every ordered pair of the 294 IDs with h <= 2 and v <= 2 (86436 pairs), pairwise, array and (inside the altitude window) tree-based form"}
		},
		Floor: tierN(1000, 10000),
		Run:   runC05,
	})
}

// related draws an ID in a chosen relation to a. square forces h == v.
func c05Related(r *core.Rng, a ref.ID, square bool) (ref.ID, string) {
	zl := func(z, d int64) int64 { return clampI(z+d, 0, 35) }
	pickZ := func(lo, hi int64) (int64, int64) { // zoom deltas
		dh := r.Range(lo, hi)
		dv := r.Range(lo, hi)
		if square {
			dv = dh
		}
		return dh, dv
	}
	switch r.Intn(7) {
	case 0:
		return a, "identical"
	case 1: // ancestor
		dh, dv := pickZ(0, 6)
		return ancestor(a, zl(a.H, -dh), zl(a.V, -dv)), "ancestor"
	case 2: // descendant
		dh, dv := pickZ(0, 6)
		return descendant(r, a, zl(a.H, dh), zl(a.V, dv)), "descendant"
	case 3: // ancestor's sibling differing in exactly one axis (near miss)
		dh, dv := pickZ(0, 5)
		b := ancestor(a, zl(a.H, -dh), zl(a.V, -dv))
		switch r.Intn(3) {
		case 0:
			b.X ^= 1
			if b.H == 0 {
				b.X = 0
			}
		case 1:
			b.Y ^= 1
			if b.H == 0 {
				b.Y = 0
			}
		default:
			b.F = flipF(b.F, b.V)
		}
		return b, "ancestor-sibling"
	case 4: // descendant of a sibling
		s := a
		switch r.Intn(3) {
		case 0:
			if s.H > 0 {
				s.X ^= 1
			}
		case 1:
			if s.H > 0 {
				s.Y ^= 1
			}
		default:
			s.F = flipF(s.F, s.V)
		}
		dh, dv := pickZ(0, 4)
		return descendant(r, s, zl(s.H, dh), zl(s.V, dv)), "sibling-descendant"
	case 6:
		if r.P(0.3) { // same tile and zooms, vertical index 2^v apart (equal in the low v bits)
			b := a
			if b.F >= 0 {
				b.F -= pow2(b.V)
			} else {
				b.F += pow2(b.V)
			}
			return b, "f-alias-2^v"
		}
	case 5: // mixed: coarser on one axis, finer on the other (not available for the square form)
		if square {
			dh, _ := pickZ(0, 4)
			return descendant(r, ancestor(a, zl(a.H, -dh), zl(a.V, -dh)), a.H, a.V), "cousin"
		}
		b := ancestor(a, zl(a.H, -r.Range(1, 5)), a.V)
		return descendant(r, b, b.H, zl(b.V, r.Range(1, 5))), "mixed-axes"
	}
	if square {
		z := genZoom(r)
		if z == 0 {
			z = 1
		}
		n := pow2(z)
		m := pow2(z - 1)
		return ref.ID{H: z, X: edgeIndex(r, n), Y: edgeIndex(r, n), V: z, F: clampI(edgeF(r, z), -m, m-1)}, "unrelated"
	}
	return genID(r, 0, 35, 0, 35), "unrelated"
}

// flipF returns the vertical sibling of f (same parent, other half); at zoom 0 the other of {-1,0}.
func flipF(f, v int64) int64 {
	if v == 0 {
		return -1 - f
	}
	return f ^ 1
}

// inWindow: spatial ID inside the documented +-2^24 m altitude window (and z >= 1).
func inWindow(a ref.ID) bool {
	if a.H != a.V || a.H < 1 {
		return false
	}
	m := pow2(a.H - 1)
	return a.F >= -m && a.F < m
}

// exhaustive sub-scope: every ordered pair of the 294 IDs with h <= 2, v <= 2
var c05Small []ref.ID

func c05SmallIDs() []ref.ID {
	if c05Small == nil {
		for h := int64(0); h <= 2; h++ {
			for v := int64(0); v <= 2; v++ {
				for x := int64(0); x < pow2(h); x++ {
					for y := int64(0); y < pow2(h); y++ {
						for f := -pow2(v); f < pow2(v); f++ {
							c05Small = append(c05Small, ref.ID{H: h, X: x, Y: y, V: v, F: f})
						}
					}
				}
			}
		}
	}
	return c05Small
}

func c05Exhaustive() int64 { n := int64(len(c05SmallIDs())); return n * n }

func runC05Small(c *core.Case) {
	ids := c05SmallIDs()
	n := int64(len(ids))
	a, b := ids[c.I/n], ids[c.I%n]
	sa, sb := a.Ext(), b.Ext()
	want := ref.Overlap(a, b)
	c.Tag("exhaustive-small-pairs")
	c.KS(sa, sb)
	if a != b {
		c.NonTrivial()
	}
	c.Desc = func() any { return map[string]any{"id1": sa, "id2": sb, "expected_overlap": want} }
	g, e := detector.CheckExtendedSpatialIdsOverlap(sa, sb)
	c.Call()
	if e != nil || g != want {
		c.Fail("overlap-value-small-scope", nil, "CheckExtendedSpatialIdsOverlap(%s,%s) = (%v,%v), reference %v", sa, sb, g, e, want)
		return
	}
	ga, ea := detector.CheckExtendedSpatialIdsArrayOverlap([]string{sa}, []string{sb})
	c.Call()
	if ea != nil || ga != want {
		c.Fail("overlap-array-small-scope", nil, "CheckExtendedSpatialIdsArrayOverlap([%s],[%s]) = (%v,%v), reference %v", sa, sb, ga, ea, want)
		return
	}
	if inWindow(a) && inWindow(b) {
		gs, es := detector.CheckSpatialIdsOverlap(a.Spatial(), b.Spatial())
		c.Call()
		if es != nil || gs != want {
			c.Fail("overlap-spatial-small-scope", nil, "CheckSpatialIdsOverlap(%s,%s) = (%v,%v), reference %v", a.Spatial(), b.Spatial(), gs, es, want)
		}
	}
}

func runC05(c *core.Case) {
	if c.I < c05Exhaustive() {
		runC05Small(c)
		return
	}
	r := c.R
	if hammerWanted(c, c05Exhaustive()) {
		c05Hammer(c, c05Exhaustive())
		return
	}
	square := r.P(0.45)
	var a ref.ID
	if square {
		z := genZoom(r)
		if z == 0 {
			z = 1
		}
		n, m := pow2(z), pow2(z-1)
		f := clampI(edgeF(r, z), -m, m-1)
		if r.P(0.15) {
			f = []int64{-m, m - 1}[r.Intn(2)] // bottom / top index of the window
		}
		a = ref.ID{H: z, X: edgeIndex(r, n), Y: edgeIndex(r, n), V: z, F: f}
	} else {
		a = genID(r, 0, 35, 0, 35)
	}
	b, rel := c05Related(r, a, square)
	if !square && r.P(0.03) { // f = 0 voxel against a finer below-ground voxel on its footprint: disjoint (floor, not truncation)
		a, b = truncAliasPair(r)
		rel = "f0-vs-finer-negative-same-footprint"
		if r.Bool() {
			a, b = b, a
		}
	}
	c.Tag("rel-" + rel)
	if a.F < 0 || b.F < 0 {
		c.Tag("negative-f")
	}
	if a.H > 25 || b.H > 25 {
		c.Tag("sub-metre")
	}
	sa, sb := a.Ext(), b.Ext()
	want := ref.Overlap(a, b)
	if want {
		c.Tag("overlapping")
	} else {
		c.Tag("disjoint")
	}
	var obs []string
	c.Desc = func() any {
		return map[string]any{"id1": sa, "id2": sb, "relation": rel, "expected_overlap": want, "observed": obs}
	}
	c.KS(sa, sb)
	if a != b {
		c.NonTrivial()
	}
	cls := func(base string) string {
		if (a.F < 0 || b.F < 0) && a.V != b.V {
			return base + "-negative-f-mixed-vzoom"
		}
		return base
	}
	chk := func(name string, got bool, err error, want bool, args ...any) bool {
		c.Call()
		obs = append(obs, fmt.Sprintf("%s%v = (%v,%v)", name, args, got, err))
		if err != nil {
			c.Fail(cls("overlap-error"), nil, "%s%v returned error %v on valid input", name, args, err)
			return false
		}
		if got != want {
			c.Fail(cls("overlap-value"), nil, "%s%v = %v, the voxels %s", name, args, got, map[bool]string{true: "do share volume", false: "are disjoint"}[want])
			return false
		}
		return true
	}
	g, e := detector.CheckExtendedSpatialIdsOverlap(sa, sb)
	if !chk("CheckExtendedSpatialIdsOverlap", g, e, want, sa, sb) {
		return
	}
	if r.P(0.03) { // the same voxels spelled with non-canonical numerals the parser accepts
		ra, rb := respell(r, sa), respell(r, sb)
		g, e = detector.CheckExtendedSpatialIdsOverlap(ra, rb)
		if !chk("CheckExtendedSpatialIdsOverlap", g, e, want, ra, rb) {
			return
		}
		ga, ea := detector.CheckExtendedSpatialIdsArrayOverlap([]string{ra, sa}, []string{sb})
		if !chk("CheckExtendedSpatialIdsArrayOverlap", ga, ea, want, ra, sa, sb) {
			return
		}
		c.Tag("respelled-numerals")
	}
	g, e = detector.CheckExtendedSpatialIdsOverlap(sb, sa)
	if !chk("CheckExtendedSpatialIdsOverlap", g, e, want, sb, sa) {
		return
	}
	g, e = detector.CheckExtendedSpatialIdsOverlap(sa, sa)
	if !chk("CheckExtendedSpatialIdsOverlap", g, e, true, sa, sa) {
		return
	}
	spatialOK := inWindow(a) && inWindow(b)
	if spatialOK {
		c.Tag("spatial-form")
		pa, pb := a.Spatial(), b.Spatial()
		scls := func(base string) string {
			if a.H > 25 || b.H > 25 {
				return base + "-submetre"
			}
			m1, m2 := pow2(a.H-1), pow2(b.H-1)
			if a.F == m1-1 || b.F == m2-1 {
				return base + "-window-top"
			}
			return base
		}
		g, e = detector.CheckSpatialIdsOverlap(pa, pb)
		c.Call()
		obs = append(obs, fmt.Sprintf("CheckSpatialIdsOverlap(%s,%s) = (%v,%v)", pa, pb, g, e))
		if e != nil {
			c.Fail(scls("overlap-spatial-error"), nil, "CheckSpatialIdsOverlap(%s,%s) returned error %v inside the altitude window", pa, pb, e)
			return
		}
		if g != want {
			c.Fail(scls("overlap-spatial-value"), nil, "CheckSpatialIdsOverlap(%s,%s) = %v, reference %v", pa, pb, g, want)
			return
		}
		g2, e2 := detector.CheckSpatialIdsOverlap(pb, pa)
		c.Call()
		if e2 != nil || g2 != want {
			c.Fail(scls("overlap-spatial-symmetry"), nil, "CheckSpatialIdsOverlap(%s,%s) = (%v,%v), swapped gave %v", pb, pa, g2, e2, g)
			return
		}
		g3, e3 := detector.CheckSpatialIdsOverlap(pa, pa)
		c.Call()
		if e3 != nil || !g3 {
			c.Fail(scls("overlap-spatial-self"), nil, "CheckSpatialIdsOverlap(%s,%s) = (%v,%v), an ID overlaps itself", pa, pa, g3, e3)
			return
		}
	}

	// hostile list histories (rare, directed): big lists with one planted overlap, confusable consecutive lists
	if r.P(0.004) {
		c05BigLists(c, square)
		return
	}
	if r.P(0.0003) || (c.Tier == "thorough" && r.P(0.0003)) || (os.Getenv("C05_FORCE") != "" && r.P(0.01)) {
		c05VeryLong(c)
		return
	}
	if r.P(0.01) {
		c05Confusable(c)
		return
	}
	if r.P(0.03) {
		c05NearCover(c)
		return
	}
	// list forms (one case in four)
	if r.Intn(4) != 0 {
		return
	}
	mk := func(seed ref.ID) []ref.ID {
		n := r.Intn(7)
		if r.P(0.15) {
			n = 0
		}
		var l []ref.ID
		for i := 0; i < n; i++ {
			x, _ := c05Related(r, seed, square)
			if square && !inWindow(x) {
				continue
			}
			l = append(l, x)
		}
		return l
	}
	l1, l2 := mk(a), mk(b)
	wantArr := false
	for _, x := range l1 {
		for _, y := range l2 {
			if ref.Overlap(x, y) {
				wantArr = true
			}
		}
	}
	e1, e2 := ref.Exts(l1), ref.Exts(l2)
	if r.P(0.2) {
		e1 = nil
		l1 = nil
		wantArr = false
	}
	c1, c2 := copyStrings(e1), copyStrings(e2)
	keyStrings(c, e1)
	keyStrings(c, e2)
	if len(l1) == 0 || len(l2) == 0 {
		c.Tag("empty-list")
		wantArr = false
	}
	c.Tag("list-form")
	ga, ea := detector.CheckExtendedSpatialIdsArrayOverlap(e1, e2)
	c.Call()
	obs = append(obs, fmt.Sprintf("CheckExtendedSpatialIdsArrayOverlap(%v,%v) = (%v,%v)", e1, e2, ga, ea))
	if ea != nil || ga != wantArr {
		c.Fail(cls("overlap-array"), nil, "CheckExtendedSpatialIdsArrayOverlap(%v,%v) = (%v,%v), disjunction of the pairs is %v", e1, e2, ga, ea, wantArr)
		return
	}
	gb, eb := detector.CheckExtendedSpatialIdsArrayOverlap(e2, e1)
	c.Call()
	if eb != nil || gb != wantArr {
		c.Fail(cls("overlap-array-symmetry"), nil, "CheckExtendedSpatialIdsArrayOverlap swapped = (%v,%v), want %v", gb, eb, wantArr)
		return
	}
	// disjunction of the pairwise *function* (bounded)
	if len(l1)*len(l2) <= 16 {
		or := false
		for _, x := range e1 {
			for _, y := range e2 {
				p, pe := detector.CheckExtendedSpatialIdsOverlap(x, y)
				c.Call()
				if pe != nil {
					c.Fail("overlap-error", nil, "pairwise check returned %v", pe)
					return
				}
				or = or || p
			}
		}
		if or != ga {
			c.Fail("overlap-array-vs-pairwise", nil, "array form %v differs from OR of pairwise function %v", ga, or)
			return
		}
	}
	if !sameStrings(e1, c1) || !sameStrings(e2, c2) {
		c.Fail("input-modified", nil, "overlap check modified an input slice")
		return
	}
	// slice reuse: the caller overwrites an interior element of the same slice in place and asks again
	if len(l1) >= 3 && len(l2) >= 1 {
		k := 1 + r.Intn(len(l1)-2)
		repl, _ := c05Related(r, l2[r.Intn(len(l2))], square)
		if r.Bool() {
			repl = genID(r, 0, 35, 0, 35)
			if square {
				repl = l1[k]
			}
		}
		if !square || inWindow(repl) {
			m1 := append([]ref.ID{}, l1...)
			m1[k] = repl
			want2 := false
			for _, x := range m1 {
				for _, y := range l2 {
					if ref.Overlap(x, y) {
						want2 = true
					}
				}
			}
			e1[k] = repl.Ext()
			g2, er2 := detector.CheckExtendedSpatialIdsArrayOverlap(e1, e2)
			c.Call()
			if er2 != nil || g2 != want2 {
				c.Fail("overlap-array-after-in-place-edit", nil, "CheckExtendedSpatialIdsArrayOverlap(%v,%v) after element %d of the same slice was overwritten in place = (%v,%v), want %v", e1, e2, k, g2, er2, want2)
				return
			}
			if square {
				s1, s2 := ref.Spatials(l1), ref.Spatials(l2)
				g0, er0 := detector.CheckSpatialIdsArrayOverlap(s1, s2)
				s1[k] = repl.Spatial()
				g3, er3 := detector.CheckSpatialIdsArrayOverlap(s1, s2)
				c.Calls(2)
				if er0 != nil || g0 != wantArr || er3 != nil || g3 != want2 {
					c.Fail("overlap-spatial-array-after-in-place-edit", nil, "CheckSpatialIdsArrayOverlap on a reused slice: before the in-place edit (%v,%v) want %v; after overwriting element %d (%v,%v) want %v", g0, er0, wantArr, k, g3, er3, want2)
					return
				}
			}
			c.Tag("in-place-edit")
			l1 = m1
			wantArr = want2
			ga = g2
		}
	}
	if square {
		s1, s2 := ref.Spatials(l1), ref.Spatials(l2)
		gs, es := detector.CheckSpatialIdsArrayOverlap(s1, s2)
		c.Call()
		obs = append(obs, fmt.Sprintf("CheckSpatialIdsArrayOverlap(%v,%v) = (%v,%v)", s1, s2, gs, es))
		if es != nil || gs != wantArr {
			cl := "overlap-spatial-array"
			if len(l1) == 0 {
				cl = "overlap-spatial-array-empty-first"
			}
			c.Fail(cl, nil, "CheckSpatialIdsArrayOverlap(%v,%v) = (%v,%v), disjunction of the pairs is %v", s1, s2, gs, es, wantArr)
			return
		}
		gs2, es2 := detector.CheckSpatialIdsArrayOverlap(s2, s1)
		c.Call()
		if es2 != nil || gs2 != wantArr {
			c.Fail("overlap-spatial-array-symmetry", nil, "CheckSpatialIdsArrayOverlap swapped (%v,%v) = (%v,%v), want %v", s2, s1, gs2, es2, wantArr)
			return
		}
		// both implementations agree on h == v inputs
		if gs != ga {
			c.Fail("overlap-implementations-disagree", nil, "tree-based form %v, zoom-change-based form %v on the same h==v lists", gs, ga)
		}
	}
}

// c05BigLists: two long lists of pairwise disjoint voxels (>= 4096 pairs) with exactly one overlapping pair planted
// at a random position (the tail of the first list is favoured: chunked/parallel implementations drop remainders).
func c05BigLists(c *core.Case, square bool) {
	r := c.R
	n1, n2 := 60+r.Intn(12), 70+r.Intn(12)
	z := r.Range(12, 30)
	mk := func() ref.ID {
		return ref.ID{H: z, X: r.I64n(pow2(z)), Y: r.I64n(pow2(z)), V: z, F: r.Range(-pow2(z-1), pow2(z-1)-1)}
	}
	var l1, l2 []ref.ID
	for len(l1) < n1 {
		l1 = append(l1, mk())
	}
	for len(l2) < n2 {
		l2 = append(l2, mk())
	}
	i := r.Intn(n1)
	if r.P(0.6) {
		i = n1 - 1 - r.Intn(8)
	}
	j := r.Intn(n2)
	plant := r.P(0.7)
	if plant {
		l2[j] = descendant(r, l1[i], clampI(z+r.Range(0, 2), 0, 35), clampI(z+r.Range(0, 2), 0, 35))
		if square {
			l2[j] = descendant(r, l1[i], clampI(z+1, 0, 35), clampI(z+1, 0, 35))
		}
	}
	want := false
	for _, x := range l1 {
		for _, y := range l2 {
			if ref.Overlap(x, y) {
				want = true
			}
		}
	}
	c.Tag("big-lists")
	c.NonTrivial()
	e1, e2 := ref.Exts(l1), ref.Exts(l2)
	keyStrings(c, e1)
	keyStrings(c, e2)
	c.Desc = func() any {
		return map[string]any{"scenario": "big lists", "len1": n1, "len2": n2, "planted_pair": []int{i, j}, "planted": plant, "expected": want}
	}
	for _, sw := range []bool{false, true} {
		a, b := e1, e2
		if sw {
			a, b = b, a
		}
		g, err := detector.CheckExtendedSpatialIdsArrayOverlap(a, b)
		c.Call()
		if err != nil || g != want {
			c.Fail("overlap-array-big-lists", nil, "CheckExtendedSpatialIdsArrayOverlap on lists of %d and %d IDs (swapped %v) with the only overlapping pair at positions (%d,%d): (%v,%v), want %v", n1, n2, sw, i, j, g, err, want)
			return
		}
	}
	if square {
		s1, s2 := ref.Spatials(l1), ref.Spatials(l2)
		for _, sw := range []bool{false, true} {
			a, b := s1, s2
			if sw {
				a, b = b, a
			}
			g, err := detector.CheckSpatialIdsArrayOverlap(a, b)
			c.Call()
			if err != nil || g != want {
				c.Fail("overlap-spatial-array-big-lists", nil, "CheckSpatialIdsArrayOverlap on lists of %d and %d IDs (swapped %v), planted pair (%d,%d): (%v,%v), want %v", n1, n2, sw, i, j, g, err, want)
				return
			}
		}
	}
}

// c05Confusable: two different first-argument lists whose ID strings concatenate to the same text, used in two
// consecutive calls (a cache keyed on the joined strings without separator confuses them).
func c05Confusable(c *core.Case) {
	r := c.R
	z1 := r.Range(4, 9)
	y1 := r.Range(0, pow2(z1)/10-1)
	d := r.Range(1, 3)         // leading digit of the second ID's zoom (10..35)
	z2 := d*10 + r.Range(0, 5) // two-digit zoom
	zs := z2 % 10              // zoom left when the leading digit moves to the first ID
	x1, f1 := r.Range(0, pow2(z1)-1), r.Range(-pow2(z1-1), pow2(z1-1)-1)
	idx2 := r.Range(0, 0) // indices valid at both zooms
	A := []ref.ID{{H: z1, X: x1, Y: y1, V: z1, F: f1}, {H: z2, X: idx2, Y: 0, V: z2, F: 0}}
	B := []ref.ID{{H: z1, X: x1, Y: y1*10 + d, V: z1, F: f1}, {H: zs, X: idx2, Y: 0, V: zs, F: 0}}
	if zs < 1 || !B[0].Valid() || !inWindow(B[1]) || !inWindow(A[0]) || !inWindow(A[1]) || !inWindow(B[0]) {
		c.Inconclusive("confusable-shape-not-constructible")
		return
	}
	sa, sb := ref.Spatials(A), ref.Spatials(B)
	// one probe voxel that lies in a voxel of exactly one of the two lists (A[0] and B[0] differ in y), so that the
	// expected answers for A and B differ
	probe := []ref.ID{descendant(r, [][]ref.ID{A, B}[r.Intn(2)][0], 35, 35)}
	probe[0].F = clampI(probe[0].F, -pow2(34), pow2(34)-1)
	sp := ref.Spatials(probe)
	want := func(l []ref.ID) bool {
		for _, x := range l {
			for _, y := range probe {
				if ref.Overlap(x, y) {
					return true
				}
			}
		}
		return false
	}
	c.Tag("confusable-consecutive-lists")
	c.NonTrivial()
	keyStrings(c, sa)
	keyStrings(c, sb)
	keyStrings(c, sp)
	c.Desc = func() any {
		return map[string]any{"scenario": "confusable consecutive lists", "A": sa, "B": sb, "probe": sp}
	}
	for k, l := range [][]string{sa, sb, sa} {
		ids := [][]ref.ID{A, B, A}[k]
		g, err := detector.CheckSpatialIdsArrayOverlap(l, sp)
		c.Call()
		if err != nil || g != want(ids) {
			c.Fail("overlap-spatial-array-history", nil, "CheckSpatialIdsArrayOverlap(%v,%v) as call %d of the sequence A,B,A with A=%v B=%v: (%v,%v), want %v", l, sp, k+1, sa, sb, g, err, want(ids))
			return
		}
	}
	// the same sequence with the confusable lists as SECOND argument (separately: a call with another first list in
	// between would replace whatever the library remembers about the previous first list)
	for k, l := range [][]string{sa, sb, sa} {
		ids := [][]ref.ID{A, B, A}[k]
		g2, err2 := detector.CheckSpatialIdsArrayOverlap(sp, l)
		c.Call()
		if err2 != nil || g2 != want(ids) {
			c.Fail("overlap-spatial-array-history", nil, "CheckSpatialIdsArrayOverlap(%v,%v) (swapped) as call %d of A,B,A: (%v,%v), want %v", sp, l, k+1, g2, err2, want(ids))
			return
		}
	}
}

// c05VeryLong: one very long list (2^15 .. 2^17 + 3 IDs, pairwise disjoint from the probe list) against a short
// list, with the only overlapping ID planted among the last few elements; tree-based and pairwise forms, both orders.
// In the thorough tier also two 512-element lists of h == v IDs (>= 2^18 pairs) that include voxels outside the
// +-2^24 m window and a pair whose vertical indices differ by exactly 2^z.
func c05VeryLong(c *core.Case) {
	r := c.R
	z := r.Range(14, 30)
	mk := func() ref.ID { // uniform draws inside the altitude window: pairwise disjoint with overwhelming probability
		return ref.ID{H: z, X: r.I64n(pow2(z)), Y: r.I64n(pow2(z)), V: z, F: r.Range(-pow2(z-1), pow2(z-1)-1)}
	}
	n := veryLongLen(r)
	long := make([]ref.ID, n)
	for i := range long {
		long[i] = mk()
	}
	short := []ref.ID{mk(), mk(), mk()}
	plant := r.P(0.75)
	pos := n - 1 - r.Intn(7)
	if plant {
		long[pos] = descendant(r, short[r.Intn(3)], clampI(z+1, 0, 35), clampI(z+1, 0, 35))
	}
	want := false
	for _, y := range short {
		for _, x := range long {
			if ref.Overlap(x, y) {
				want = true
				break
			}
		}
	}
	c.Tag("very-long-list")
	c.Procs()
	c.NonTrivial()
	c.KI(int64(n), int64(pos), z)
	c.KS(short[0].Ext())
	c.Desc = func() any {
		return map[string]any{"scenario": "very long list", "len": n, "planted": plant, "position": pos, "zoom": z, "expected": want}
	}
	sl, ss := ref.Spatials(long), ref.Spatials(short)
	for _, sw := range []bool{false, true} {
		a, b := sl, ss
		if sw {
			a, b = b, a
		}
		g, err := detector.CheckSpatialIdsArrayOverlap(a, b)
		c.Call()
		if err != nil || g != want {
			c.Fail("overlap-spatial-array-very-long", nil, "CheckSpatialIdsArrayOverlap with a list of %d IDs (swapped %v), only overlap at position %d: (%v,%v), want %v", n, sw, pos, g, err, want)
			return
		}
	}
	el, es := ref.Exts(long[n-4000:]), ref.Exts(short) // the pairwise form is O(n*m): use the tail
	wantTail := false
	for _, y := range short {
		for _, x := range long[n-4000:] {
			if ref.Overlap(x, y) {
				wantTail = true
			}
		}
	}
	g, err := detector.CheckExtendedSpatialIdsArrayOverlap(el, es)
	c.Call()
	if err != nil || g != wantTail {
		c.Fail("overlap-array-very-long", nil, "CheckExtendedSpatialIdsArrayOverlap with a list of 4000 IDs: (%v,%v), want %v", g, err, wantTail)
		return
	}
	if (c.Tier != "thorough" || !r.P(0.3)) && os.Getenv("C05_FORCE") == "" {
		return
	}
	// >= 2^18 pairs of h == v IDs, not restricted to the altitude window of the tree-based form
	var l1, l2 []ref.ID
	uni := func() ref.ID { // uniform draws: the two lists are disjoint with overwhelming probability
		return ref.ID{H: z, X: r.I64n(pow2(z)), Y: r.I64n(pow2(z)), V: z, F: r.Range(-pow2(z), pow2(z)-1)}
	}
	for len(l1) < 512 {
		l1 = append(l1, uni())
	}
	for len(l2) < 513 {
		l2 = append(l2, uni())
	}
	al := l1[r.Intn(512)]
	if al.F >= 0 {
		al.F -= pow2(z)
	} else {
		al.F += pow2(z)
	}
	l2[r.Intn(513)] = al
	wantSq := false
	for _, x := range l1 {
		for _, y := range l2 {
			if ref.Overlap(x, y) {
				wantSq = true
			}
		}
	}
	g2, err2 := detector.CheckExtendedSpatialIdsArrayOverlap(ref.Exts(l1), ref.Exts(l2))
	c.Call()
	c.Tag("262k-pairs-square-ids")
	if err2 != nil || g2 != wantSq {
		c.Fail("overlap-array-262k-pairs", nil, "CheckExtendedSpatialIdsArrayOverlap on 512 x 513 IDs with h == v = %d (one pair has vertical indices exactly 2^z apart): (%v,%v), want %v", z, g2, err2, wantSq)
	}
}

// c05NearCover: the first list covers a voxel G except for one cell U, with voxels of mixed depth, complete sets of
// children standing in for their parent, and parents listed next to their complete children; the second list lies in
// U (no overlap) or in the covered part (overlap). Implementations that compact complete child sets into parents must
// not promote G. Judged by the disjunction over all pairs, both argument orders, spatial and extended forms.
func c05NearCover(c *core.Case) {
	r := c.R
	z := r.Range(1, 18)
	G := ref.ID{H: z, X: edgeIndex(r, pow2(z)), Y: edgeIndex(r, pow2(z)), V: z, F: r.Range(-pow2(z-1), pow2(z-1)-1)}
	children := func(a ref.ID) []ref.ID { return ref.ChangeOne(a, a.H+1, a.V+1) }
	// the path from G to the uncovered cell U
	du := r.Range(1, 2)
	U := descendant(r, G, z+du, z+du)
	var cover []ref.ID
	var expand func(a ref.ID, depth int64)
	add := func(a ref.ID) {
		if r.P(0.4) && a.H < z+3 { // complete children instead of (or next to) the voxel itself
			cover = append(cover, children(a)...)
			if r.Bool() {
				cover = append(cover, a)
			}
		} else {
			cover = append(cover, a)
		}
	}
	expand = func(a ref.ID, depth int64) {
		for _, ch := range children(a) {
			switch {
			case ch == U:
			case ref.Contains(ch, U):
				expand(ch, depth+1)
			default:
				add(ch)
			}
		}
	}
	expand(G, 0)
	for i := range cover { // shuffle, a few duplicates
		j := r.Intn(i + 1)
		cover[i], cover[j] = cover[j], cover[i]
	}
	for k := r.Intn(3); k > 0; k-- {
		cover = append(cover, cover[r.Intn(len(cover))])
	}
	var probe []ref.ID
	T := U
	if !r.P(0.6) {
		T = cover[r.Intn(len(cover))]
	}
	d := r.Range(0, 2)
	probe = append(probe, descendant(r, T, T.H+d, T.V+d))
	if r.P(0.3) { // an unrelated voxel far away
		probe = append(probe, ref.ID{H: z, X: (G.X + pow2(z)/2) % pow2(z), Y: G.Y, V: z, F: G.F})
	}
	want := false
	for _, a := range cover {
		for _, b := range probe {
			if ref.Overlap(a, b) {
				want = true
			}
		}
	}
	l1, l2 := ref.Spatials(cover), ref.Spatials(probe)
	e1, e2 := ref.Exts(cover), ref.Exts(probe)
	c.Tag("near-cover-of-a-voxel")
	c.NonTrivial()
	keyStrings(c, l1)
	keyStrings(c, l2)
	var obs []string
	c.Desc = func() any {
		return map[string]any{"scenario": "list 1 covers G except U", "G": G.Spatial(), "U": U.Spatial(), "list1": l1, "list2": l2, "expected": want, "observed": obs}
	}
	ok := true
	for _, a := range append(append([]ref.ID{}, cover...), probe...) {
		if !inWindow(a) {
			ok = false
		}
	}
	type form struct {
		name string
		f    func(a, b []string) (bool, error)
		a, b []string
	}
	forms := []form{{"CheckExtendedSpatialIdsArrayOverlap", detector.CheckExtendedSpatialIdsArrayOverlap, e1, e2}}
	if ok {
		forms = append(forms, form{"CheckSpatialIdsArrayOverlap", detector.CheckSpatialIdsArrayOverlap, l1, l2})
	}
	for _, f := range forms {
		for swap := 0; swap < 2; swap++ {
			a, b := f.a, f.b
			if swap == 1 {
				a, b = b, a
			}
			g, err := f.f(a, b)
			c.Call()
			obs = append(obs, fmt.Sprintf("%s(swap=%d) = (%v,%v)", f.name, swap, g, err))
			if err != nil || g != want {
				c.Fail("overlap-array-near-cover", nil, "%s(%v, %v) = (%v,%v); the pairwise disjunction is %v (list 1 covers %s except %s)", f.name, trunc(a, 40), trunc(b, 8), g, err, want, G.Spatial(), U.Spatial())
				return
			}
		}
	}
}
