package props

import (
	"fmt"
	"math/big"

	"github.com/trajectoryjp/spatial_id_go/v4/transform"

	"verifmon/core"
	"verifmon/ref"
)

// C12 — altitude-key conversion never loses altitude and is exact where it can be.

type c12Tuple struct {
	dir               int
	idx, zi, zo, E, O int64
}

// Two completely enumerated sub-scopes (both tiers):
//
//	A "metre window": source/target zooms and base exponent in 22..27 (cells of 8 m .. 0.25 m), offsets 23..41,
//	  source indices f in [-8,7] resp. keys 0..31.
//	B "coarse zooms": source zoom 0..3 with every index of the zoom (incl. the top index), target zoom 0..4,
//	  base exponent 24..28, eight offsets around +-2^24.
var c12Offsets = []int64{0, 1 << 22, -(1 << 22), 1 << 23, 1 << 24, 1<<24 + 1, 1 << 25, 1 << 26}

var c12B []c12Pair // (zoom,index) for scope B: first the Z->key pairs, then from c12BSplit the key->Z pairs
var c12BSplit int

type c12Pair struct{ z, idx int64 }

func c12Tables() {
	if c12B != nil {
		return
	}
	for z := int64(0); z <= 3; z++ {
		for f := -pow2(z); f < pow2(z); f++ {
			c12B = append(c12B, c12Pair{z, f})
		}
	}
	c12BSplit = len(c12B)
	for z := int64(0); z <= 3; z++ {
		for k := int64(0); k < pow2(z); k++ {
			c12B = append(c12B, c12Pair{z, k})
		}
	}
}

const c12ACount = 6 * 6 * 6 * 19 * 48

func c12BCount() int64 { c12Tables(); return 5 * 5 * 8 * int64(len(c12B)) }

// C "huge offsets": source zoom 22..25, target zoom 0..2, base exponent 33..35, offsets k*2^u + d (u = 33..35, k = 1..3,
// d = -2..2), source indices f in [-3,3] resp. keys 0..3: key boundaries that fall inside 2 m and 4 m voxels.
const c12CCount = 4 * 3 * 3 * 45 * 11

func c12Exhaustive() int64 { return c12ACount + c12BCount() + c12CCount }

func c12Decode(i int64) c12Tuple {
	if i < c12ACount {
		p := i % 48
		i /= 48
		O := 23 + i%19
		i /= 19
		zi, zo, E := 22+i%6, 22+(i/6)%6, 22+i/36
		if p < 16 {
			return c12Tuple{0, p - 8, zi, zo, E, O}
		}
		return c12Tuple{1, p - 16, zi, zo, E, O}
	}
	i -= c12ACount
	if bc := c12BCount(); i >= bc {
		i -= bc
		p := i % 11
		i /= 11
		d := i%5 - 2
		i /= 5
		k := 1 + i%3
		i /= 3
		u := 33 + i%3
		i /= 3
		O := k*pow2(u) + d
		E := 33 + i%3
		i /= 3
		zo := i % 3
		zi := 22 + i/3
		if p < 7 {
			return c12Tuple{0, p - 3, zi, zo, E, O}
		}
		return c12Tuple{1, p - 7, zi, zo, E, O}
	}
	c12Tables()
	n := int64(len(c12B))
	p := i % n
	i /= n
	O := c12Offsets[i%8]
	i /= 8
	zo, E := i%5, 24+i/5
	if p < int64(c12BSplit) {
		return c12Tuple{0, c12B[p].idx, c12B[p].z, zo, E, O}
	}
	return c12Tuple{1, c12B[p].idx, c12B[p].z, zo, E, O}
}

func init() {
	core.Register(&core.Monitor{
		ID:        "C12",
		Technique: "reference-model monitor (exact big.Rat interval arithmetic): coverage, error regime, mutual consistency of the two directions + concurrent scenarios (4-64 goroutines issuing the same judged calls at once) + hostile scheduler widths",
		Rule: "per case: one conversion tuple (direction, source index, source zoom, target zoom, base exponent E, base offset O) with zooms/E in 0..35 (emphasis on 0, 24-26, 35), O in {0, powers of two, odd, negative, small, 2^24, 2^25}, " +
			"source index uniform or at the bottom/top of its zoom, 0, -1, or just outside the zoom's range. Oracle: error iff source index missing or exact cover leaves the target range (never when the metre-widened cover fits); " +
			"otherwise min<=max, [min,max] contains the exact cover and lies inside the metre-widened cover; the opposite function called on up to 64 returned indices must return a range containing the source index. " +
			"Non-trivial = conversion tuple with source zoom != target zoom or O != 0 or E != 25; distinct by tuple. Both tiers include three completely enumerated sub-scopes (metre window 22..27, coarse zooms 0..3 with all indices, huge offsets k*2^33..35 at base exponents 33..35).",
		Assume: []string{"reference: exact rational intervals (math/big); widened = interval rounded outward to whole metres", "|O| <= 2^26 in 90 % of the cases, up to 2^36 otherwise and in sub-scope C, always with |O|*2^(35-E) < 2^61 so that the library's int64 shifts cannot overflow"},
		N:      func(t string) int64 { return c12Exhaustive() + tierN(250_000, 8_000_000)(t) },
		Floor:  tierN(1000, 10000),
		Run:    runC12,
		Exhaustive: func(string) []string {
			return []string{fmt.Sprintf("A: zooms and base exponent 22..27, offsets 23..41, f in [-8,7] / keys 0..31, both directions (%d tuples)", int64(c12ACount)),
				fmt.Sprintf("B: source zoom 0..3 with every index, target zoom 0..4, base exponent 24..28, 8 offsets, both directions (%d tuples)", c12BCount()),
				fmt.Sprintf("C: source zoom 22..25, target zoom 0..2, base exponent 33..35, offsets k*2^u+d (u 33..35, k 1..3, d -2..2), f in [-3,3] / keys 0..3 (%d tuples)", int64(c12CCount))}
		},
	})
}

// genOffsetWide: 10 % large offsets (2^27 .. 2^36: powers of two and neighbours, small multiples of 2^33..2^35, uniform;
// both signs), kept inside the arithmetic the library is written for: the offset scaled to the finest zoom,
// |O| * 2^(35-E), stays below 2^61 (beyond that the unchanged library wraps around int64 - out of the statement's reach).
func genOffsetWide(r *core.Rng, E int64) int64 {
	if !r.P(0.1) {
		return genOffset(r)
	}
	var o int64
	switch r.Intn(4) {
	case 0:
		o = pow2(r.Range(27, 36)) + r.Range(-1, 1)
	case 1:
		o = r.Range(1, 4)*pow2(r.Range(33, 35)) + r.Range(-2, 2)
	default:
		o = r.Range(1<<27, 1<<36)
	}
	for sh := int64(35) - E; sh > 0 && o >= pow2(61-sh); {
		o >>= 1
	}
	if r.P(0.3) {
		o = -o
	}
	return o
}

func genOffset(r *core.Rng) int64 {
	switch r.Intn(9) {
	case 0, 1:
		return 0
	case 2:
		return pow2(r.Range(0, 26))
	case 3:
		return -pow2(r.Range(0, 26))
	case 4:
		return 2*r.Range(-50000, 50000) + 1
	case 5:
		return 1 << 24
	case 6:
		return r.Range(-9, 9)
	case 7:
		return 1 << 25
	}
	return r.Range(-(1 << 26), 1<<26)
}

// judgeAlt judges one conversion result. dir 0: Z->key (target range [0,2^zo)), dir 1: key->Z (target range [-2^zo,2^zo)).
// Returns "" if held, else a class tag and message.
func judgeAlt(dir int, idx, zi, zo, E, O int64, gmin, gmax int64, err error) (class, msg string) {
	var exLo, exHi, wLo, wHi *big.Int
	var srcOK bool
	var tLo, tHi *big.Int
	if dir == 0 {
		srcOK = idx >= -pow2(zi) && idx < pow2(zi)
		exLo, exHi, wLo, wHi = ref.KeyCoverOfF(idx, zi, zo, E, O)
		tLo, tHi = big.NewInt(0), big.NewInt(pow2(zo)-1)
	} else {
		srcOK = idx >= 0 && idx < pow2(zi)
		exLo, exHi, wLo, wHi = ref.FCoverOfKey(idx, zi, zo, E, O)
		tLo, tHi = big.NewInt(-pow2(zo)), big.NewInt(pow2(zo)-1)
	}
	if !srcOK {
		if err == nil {
			return "alt-missing-error-source", fmt.Sprintf("source index %d does not exist at zoom %d but (%d,%d) was returned", idx, zi, gmin, gmax)
		}
		return "", ""
	}
	exactFits := exLo.Cmp(tLo) >= 0 && exHi.Cmp(tHi) <= 0
	widenedFits := wLo.Cmp(tLo) >= 0 && wHi.Cmp(tHi) <= 0
	if !exactFits {
		if err == nil {
			return "alt-missing-error-range", fmt.Sprintf("exact cover %v..%v leaves the target range %v..%v but (%d,%d) was returned", exLo, exHi, tLo, tHi, gmin, gmax)
		}
		return "", ""
	}
	if err != nil {
		if widenedFits {
			cls := "alt-spurious-error"
			if (dir == 0 && idx == pow2(zi)-1) || (dir == 1 && idx == pow2(zi)-1) {
				cls = "alt-spurious-error-top-index"
			}
			return cls, fmt.Sprintf("error %q although even the metre-widened cover %v..%v fits the target range %v..%v", err.Error(), wLo, wHi, tLo, tHi)
		}
		return "", "" // exact fits, widened does not: either outcome is allowed
	}
	if gmin > gmax {
		return "alt-min-gt-max", fmt.Sprintf("returned min %d > max %d", gmin, gmax)
	}
	bmin, bmax := big.NewInt(gmin), big.NewInt(gmax)
	if bmin.Cmp(exLo) > 0 || bmax.Cmp(exHi) < 0 {
		return "alt-lost-cells", fmt.Sprintf("returned %d..%d does not contain the exact cover %v..%v (altitude lost)", gmin, gmax, exLo, exHi)
	}
	if bmin.Cmp(wLo) < 0 || bmax.Cmp(wHi) > 0 {
		return "alt-excess-cells", fmt.Sprintf("returned %d..%d exceeds the metre-widened cover %v..%v", gmin, gmax, wLo, wHi)
	}
	return "", ""
}

func runC12(c *core.Case) {
	r := c.R
	var dir int
	var idx, zi, zo, E, O int64
	if ex := c12Exhaustive(); c.I < ex {
		t := c12Decode(c.I)
		dir, idx, zi, zo, E, O = t.dir, t.idx, t.zi, t.zo, t.E, t.O
		c.Tag("exhaustive-subscope")
	} else if hammerWanted(c, ex) {
		c12Hammer(c, ex)
		return
	} else {
		dir = r.Intn(2)
		zi, zo, E = genZoom(r), genZoom(r), genZoom(r)
		if r.P(0.3) {
			E = 25
		}
		O = genOffsetWide(r, E)
		lo, hi := -pow2(zi), pow2(zi)-1
		if dir == 1 {
			lo = 0
		}
		switch r.Intn(10) {
		case 0:
			idx = lo
		case 1:
			idx = hi
		case 2:
			idx = clampI(0, lo, hi)
		case 3:
			idx = clampI(-1, lo, hi)
		case 4:
			idx = []int64{lo - 1, hi + 1, lo - r.Range(1, 1000), hi + r.Range(1, 1000)}[r.Intn(4)]
			c.Tag("source-index-out-of-range")
		case 5:
			idx = clampI(r.Range(-40, 40), lo, hi)
		default:
			idx = r.Range(lo, hi)
		}
	}
	var gmin, gmax int64
	var err error
	name := []string{"ConvertZToMinMaxAltitudekey", "ConvertAltitudekeyToMinMaxZ"}[dir]
	c.Desc = func() any {
		exLo, exHi, wLo, wHi := ref.KeyCoverOfF(idx, zi, zo, E, O)
		if dir == 1 {
			exLo, exHi, wLo, wHi = ref.FCoverOfKey(idx, zi, zo, E, O)
		}
		return map[string]any{"call": fmt.Sprintf("%s(%d,%d,%d,%d,%d)", name, idx, zi, zo, E, O), "returned": []any{gmin, gmax, fmt.Sprint(err)},
			"exact_cover": fmt.Sprintf("%v..%v", exLo, exHi), "metre_widened_cover": fmt.Sprintf("%v..%v", wLo, wHi)}
	}
	c.KI(int64(dir), idx, zi, zo, E, O)
	if zi != zo || O != 0 || E != 25 {
		c.NonTrivial()
	}
	c.Tag([]string{"dir-z-to-key", "dir-key-to-z"}[dir])
	if (dir == 0 && zi <= 25) || (dir == 1 && E >= zi) {
		c.Tag("exact-regime")
	} else {
		c.Tag("sub-metre-source")
	}
	if dir == 0 {
		gmin, gmax, err = transform.ConvertZToMinMaxAltitudekey(idx, zi, zo, E, O)
	} else {
		gmin, gmax, err = transform.ConvertAltitudekeyToMinMaxZ(idx, zi, zo, E, O)
	}
	c.Call()
	if err != nil {
		c.Tag("returned-error")
		if gmin != 0 || gmax != 0 {
			c.Fail("alt-error-with-values", nil, "%s returned an error together with non-zero values (%d,%d)", name, gmin, gmax)
			return
		}
	}
	if cls, msg := judgeAlt(dir, idx, zi, zo, E, O, gmin, gmax, err); cls != "" {
		c.Fail(cls+[]string{"-z2k", "-k2z"}[dir], nil, "%s(%d,%d,%d,%d,%d): %s", name, idx, zi, zo, E, O, msg)
		return
	}
	if err != nil {
		return
	}
	// mutual consistency: every returned target index, converted back, must yield a range containing the source index
	n := gmax - gmin + 1
	step := int64(1)
	if n > 64 {
		step = n / 64
	}
	for t := gmin; t <= gmax; t += step {
		var bmin, bmax int64
		var berr error
		if dir == 0 {
			bmin, bmax, berr = transform.ConvertAltitudekeyToMinMaxZ(t, zo, zi, E, O)
		} else {
			bmin, bmax, berr = transform.ConvertZToMinMaxAltitudekey(t, zo, zi, E, O)
		}
		c.Call()
		if cls, msg := judgeAlt(1-dir, t, zo, zi, E, O, bmin, bmax, berr); cls != "" {
			c.Fail(cls+[]string{"-k2z", "-z2k"}[dir], nil, "opposite conversion of returned index %d: %s", t, msg)
			return
		}
		if berr != nil {
			continue // allowed only in the exact-fits/widened-does-not gap, which judgeAlt has just established
		}
		// t intersects the source cell only if it belongs to the exact cover; the returned range may be metre-widened
		exLo, exHi, _, _ := ref.KeyCoverOfF(idx, zi, zo, E, O)
		if dir == 1 {
			exLo, exHi, _, _ = ref.FCoverOfKey(idx, zi, zo, E, O)
		}
		bt := big.NewInt(t)
		inExact := bt.Cmp(exLo) >= 0 && bt.Cmp(exHi) <= 0
		contains := bmin <= idx && idx <= bmax
		if inExact && !contains {
			c.Fail("alt-inconsistent-directions", nil, "target index %d intersects source %d, but converting it back gives %d..%d which misses the source", t, idx, bmin, bmax)
			return
		}
		exact := (dir == 0 && zi <= 25 && E >= zo) || (dir == 1 && E >= zi && zo <= 25)
		if exact && !inExact && contains {
			c.Fail("alt-inconsistent-directions", nil, "exact regime: target index %d does not intersect source %d, but its range %d..%d contains the source", t, idx, bmin, bmax)
			return
		}
	}
	c.Tag("consistency-checked")
}
