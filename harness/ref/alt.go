package ref

import "math/big"

// Exact rational interval arithmetic for the altitude scales (C12, C13).
//
// Spatial-ID scale: index f at zoom z covers [f*2^(25-z), (f+1)*2^(25-z)) metres; f in [-2^z, 2^z).
// Key scale (zoom z, base exponent E, base offset O): key k covers [k*2^(E-z) - O, (k+1)*2^(E-z) - O) metres; k in [0, 2^z).

func pow2Rat(e int64) *big.Rat {
	if e >= 0 {
		return new(big.Rat).SetInt(new(big.Int).Lsh(big.NewInt(1), uint(e)))
	}
	return new(big.Rat).SetFrac(big.NewInt(1), new(big.Int).Lsh(big.NewInt(1), uint(-e)))
}

// FloorRat returns floor(x).
func FloorRat(x *big.Rat) *big.Int {
	q := new(big.Int)
	m := new(big.Int)
	q.DivMod(x.Num(), x.Denom(), m) // Euclidean division: m >= 0, so q is the floor for a positive denominator
	return q
}

// CeilRat returns ceil(x).
func CeilRat(x *big.Rat) *big.Int {
	f := FloorRat(x)
	if new(big.Rat).SetInt(f).Cmp(x) != 0 {
		f.Add(f, big.NewInt(1))
	}
	return f
}

// Interval is a half-open interval [Lo,Hi) of altitudes in metres.
type Interval struct{ Lo, Hi *big.Rat }

// FInterval is the altitude interval of spatial index f at zoom z.
func FInterval(f, z int64) Interval {
	c := pow2Rat(25 - z)
	return Interval{new(big.Rat).Mul(big.NewRat(f, 1), c), new(big.Rat).Mul(big.NewRat(f+1, 1), c)}
}

// KeyInterval is the altitude interval of key k at zoom z with base exponent E and offset O.
func KeyInterval(k, z, E, O int64) Interval {
	c := pow2Rat(E - z)
	o := big.NewRat(O, 1)
	lo := new(big.Rat).Mul(big.NewRat(k, 1), c)
	hi := new(big.Rat).Mul(big.NewRat(k+1, 1), c)
	return Interval{lo.Sub(lo, o), hi.Sub(hi, o)}
}

// Widen rounds the interval outward to whole metres.
func (iv Interval) Widen() Interval {
	return Interval{new(big.Rat).SetInt(FloorRat(iv.Lo)), new(big.Rat).SetInt(CeilRat(iv.Hi))}
}

// Shift translates the interval by d metres.
func (iv Interval) Shift(d int64) Interval {
	o := big.NewRat(d, 1)
	return Interval{new(big.Rat).Add(iv.Lo, o), new(big.Rat).Add(iv.Hi, o)}
}

// Cover returns the inclusive range of cells [i*cell, (i+1)*cell) that intersect the interval.
func (iv Interval) Cover(cell *big.Rat) (lo, hi *big.Int) {
	lo = FloorRat(new(big.Rat).Quo(iv.Lo, cell))
	hi = CeilRat(new(big.Rat).Quo(iv.Hi, cell))
	hi.Sub(hi, big.NewInt(1))
	return
}

// KeyCoverOfF: keys at (zo,E,O) intersecting spatial index f at zoom zi; exact and metre-widened.
func KeyCoverOfF(f, zi, zo, E, O int64) (exLo, exHi, wLo, wHi *big.Int) {
	iv := FInterval(f, zi).Shift(O) // in key metres: altitude + O
	cell := pow2Rat(E - zo)
	exLo, exHi = iv.Cover(cell)
	wLo, wHi = iv.Widen().Cover(cell)
	return
}

// FCoverOfKey: spatial indices at zoom zo intersecting key k at (zk,E,O); exact and metre-widened.
func FCoverOfKey(k, zk, zo, E, O int64) (exLo, exHi, wLo, wHi *big.Int) {
	iv := KeyInterval(k, zk, E, O)
	cell := pow2Rat(25 - zo)
	exLo, exHi = iv.Cover(cell)
	wLo, wHi = iv.Widen().Cover(cell)
	return
}
