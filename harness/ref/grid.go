// Package ref holds the reference models the monitors judge the library against. Nothing in this package
// imports the library: it is written from the properties' statements and the public definition of the grid.
package ref

import (
	"fmt"
	"sort"
	"strconv"
	"strings"
)

// ID is a voxel of the grid: horizontal zoom H with column X and row Y, vertical zoom V with index F.
type ID struct{ H, X, Y, V, F int64 }

// Ext prints the extended notation h/x/y/v/f.
func (a ID) Ext() string {
	return strconv.FormatInt(a.H, 10) + "/" + strconv.FormatInt(a.X, 10) + "/" + strconv.FormatInt(a.Y, 10) + "/" +
		strconv.FormatInt(a.V, 10) + "/" + strconv.FormatInt(a.F, 10)
}

// Spatial prints the single-zoom notation z/f/x/y (only meaningful when H == V).
func (a ID) Spatial() string {
	return strconv.FormatInt(a.H, 10) + "/" + strconv.FormatInt(a.F, 10) + "/" + strconv.FormatInt(a.X, 10) + "/" +
		strconv.FormatInt(a.Y, 10)
}

func parseInts(s string, n int) ([]int64, error) {
	p := strings.Split(s, "/")
	if len(p) != n {
		return nil, fmt.Errorf("%q: %d fields, want %d", s, len(p), n)
	}
	out := make([]int64, n)
	for i, f := range p {
		v, err := strconv.ParseInt(f, 10, 64)
		if err != nil {
			return nil, fmt.Errorf("%q: field %d: %v", s, i, err)
		}
		// reject forms ParseInt accepts but a canonical ID never has ("+5", "05", "-0")
		if strconv.FormatInt(v, 10) != f {
			return nil, fmt.Errorf("%q: field %d not canonical", s, i)
		}
		out[i] = v
	}
	return out, nil
}

// ParseExt parses h/x/y/v/f strictly (canonical decimal fields).
func ParseExt(s string) (ID, error) {
	v, err := parseInts(s, 5)
	if err != nil {
		return ID{}, err
	}
	return ID{v[0], v[1], v[2], v[3], v[4]}, nil
}

// ParseSpatial parses z/f/x/y strictly.
func ParseSpatial(s string) (ID, error) {
	v, err := parseInts(s, 4)
	if err != nil {
		return ID{}, err
	}
	return ID{v[0], v[2], v[3], v[0], v[1]}, nil
}

// Valid reports whether a is a voxel of the grid at zooms within 0..35.
func (a ID) Valid() bool {
	if a.H < 0 || a.H > 35 || a.V < 0 || a.V > 35 {
		return false
	}
	n := int64(1) << uint(a.H)
	m := int64(1) << uint(a.V)
	return a.X >= 0 && a.X < n && a.Y >= 0 && a.Y < n && a.F >= -m && a.F < m
}

// Range is an inclusive integer interval.
type Range struct{ Lo, Hi int64 }

func (r Range) Len() int64 { return r.Hi - r.Lo + 1 }

// AxisChange gives the indices at zoom 'to' that intersect index i of zoom 'from': the descendants when finer,
// the floor ancestor when coarser (arithmetic shift = floor, so -1 stays -1).
func AxisChange(i, from, to int64) Range {
	if to >= from {
		d := uint(to - from)
		return Range{i << d, (i+1)<<d - 1}
	}
	a := i >> uint(from-to)
	return Range{a, a}
}

// ChangeOne lists the voxels at (H,V) that intersect a.
func ChangeOne(a ID, H, V int64) []ID {
	rx := AxisChange(a.X, a.H, H)
	ry := AxisChange(a.Y, a.H, H)
	rf := AxisChange(a.F, a.V, V)
	out := make([]ID, 0, rx.Len()*ry.Len()*rf.Len())
	for x := rx.Lo; x <= rx.Hi; x++ {
		for y := ry.Lo; y <= ry.Hi; y++ {
			for f := rf.Lo; f <= rf.Hi; f++ {
				out = append(out, ID{H, x, y, V, f})
			}
		}
	}
	return out
}

// ChangeCount is the number of voxels ChangeOne would return.
func ChangeCount(a ID, H, V int64) int64 {
	return AxisChange(a.X, a.H, H).Len() * AxisChange(a.Y, a.H, H).Len() * AxisChange(a.F, a.V, V).Len()
}

// Change is the union of ChangeOne over a list, as a set.
func Change(ids []ID, H, V int64) map[ID]struct{} {
	out := map[ID]struct{}{}
	for _, a := range ids {
		for _, b := range ChangeOne(a, H, V) {
			out[b] = struct{}{}
		}
	}
	return out
}

// AncestorOrEqualH: a's horizontal cell contains b's (a coarser or equal).
func containsH(a, b ID) bool {
	if a.H > b.H {
		return false
	}
	d := uint(b.H - a.H)
	return b.X>>d == a.X && b.Y>>d == a.Y
}

func containsV(a, b ID) bool {
	if a.V > b.V {
		return false
	}
	return b.F>>uint(b.V-a.V) == a.F
}

// Overlap: the two voxels share interior volume, i.e. on each axis one is an ancestor-or-equal of the other.
func Overlap(a, b ID) bool {
	return (containsH(a, b) || containsH(b, a)) && (containsV(a, b) || containsV(b, a))
}

// Contains: voxel a contains voxel b entirely.
func Contains(a, b ID) bool { return containsH(a, b) && containsV(a, b) }

// Cell is a unit cell at a common fine zoom pair.
type Cell struct{ X, Y, F int64 }

// Region canonicalises a list of voxels as the set of unit cells at (H,V); every input must satisfy
// a.H <= H and a.V <= V. budget bounds the number of cells (returns ok=false when exceeded).
func Region(ids []ID, H, V int64, budget int64) (map[Cell]struct{}, bool) {
	out := map[Cell]struct{}{}
	var total int64
	for _, a := range ids {
		if a.H > H || a.V > V {
			return nil, false
		}
		if 2*(H-a.H)+(V-a.V) > 40 { // 2^40 cells: far beyond any budget, and would overflow the count
			return nil, false
		}
		total += ChangeCount(a, H, V)
		if total > budget {
			return nil, false
		}
		for _, b := range ChangeOne(a, H, V) {
			out[Cell{b.X, b.Y, b.F}] = struct{}{}
		}
	}
	return out, true
}

// MaxZooms returns the finest zooms occurring in the lists.
func MaxZooms(lists ...[]ID) (H, V int64) {
	for _, l := range lists {
		for _, a := range l {
			if a.H > H {
				H = a.H
			}
			if a.V > V {
				V = a.V
			}
		}
	}
	return
}

func mod(a, n int64) int64 {
	r := a % n
	if r < 0 {
		r += n
	}
	return r
}

// Shift is modular translation: x and y wrap modulo 2^H, f is unbounded.
func Shift(a ID, dx, dy, dv int64) ID {
	n := int64(1) << uint(a.H)
	return ID{a.H, mod(a.X+dx, n), mod(a.Y+dy, n), a.V, a.F + dv}
}

// SetOfExt turns a list of extended-ID strings into a set; dup reports whether an element occurred twice.
func SetOfExt(l []string) (set map[string]struct{}, dup bool) {
	set = make(map[string]struct{}, len(l))
	for _, s := range l {
		if _, ok := set[s]; ok {
			dup = true
		}
		set[s] = struct{}{}
	}
	return
}

// ExtSet renders a set of IDs as a set of extended strings.
func ExtSet(ids map[ID]struct{}) map[string]struct{} {
	out := make(map[string]struct{}, len(ids))
	for a := range ids {
		out[a.Ext()] = struct{}{}
	}
	return out
}

// SameSet compares two string sets and returns up to three elements of each difference.
func SameSet(got, want map[string]struct{}) (missing, extra []string, same bool) {
	for k := range want {
		if _, ok := got[k]; !ok {
			missing = append(missing, k)
		}
	}
	for k := range got {
		if _, ok := want[k]; !ok {
			extra = append(extra, k)
		}
	}
	sort.Strings(missing)
	sort.Strings(extra)
	same = len(missing) == 0 && len(extra) == 0
	if len(missing) > 3 {
		missing = missing[:3]
	}
	if len(extra) > 3 {
		extra = extra[:3]
	}
	return
}

// Exts renders IDs as extended strings.
func Exts(ids []ID) []string {
	out := make([]string, len(ids))
	for i, a := range ids {
		out[i] = a.Ext()
	}
	return out
}

// Spatials renders IDs as spatial strings.
func Spatials(ids []ID) []string {
	out := make([]string, len(ids))
	for i, a := range ids {
		out[i] = a.Spatial()
	}
	return out
}

// Quadkey is the bit interleave of x and y: base-4 digit i (from the least significant) is xbit_i + 2*ybit_i.
func Quadkey(x, y, zoom int64) int64 {
	var q int64
	for i := int64(0); i < zoom; i++ {
		q |= ((x >> uint(i)) & 1) << uint(2*i)
		q |= ((y >> uint(i)) & 1) << uint(2*i+1)
	}
	return q
}

// UnQuadkey inverts Quadkey.
func UnQuadkey(q, zoom int64) (x, y int64) {
	for i := int64(0); i < zoom; i++ {
		x |= ((q >> uint(2*i)) & 1) << uint(i)
		y |= ((q >> uint(2*i+1)) & 1) << uint(i)
	}
	return
}
