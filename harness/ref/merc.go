package ref

import (
	"math"
	"math/big"
)

// MaxLat is the latitude limit of the grid as documented by the library.
const MaxLat = 85.0511287798

// XIndexExact is floor(2^h*(lon+180)/360) computed exactly from the binary value of lon, with lon = 180 folded
// to -180. frac is the distance of t = 2^h*(lon+180)/360 from the nearest integer (as a float, for banding).
func XIndexExact(lon float64, h int64) (x int64, frac float64) {
	if lon == 180 {
		lon = -180
	}
	t := new(big.Rat).SetFloat64(lon)
	t.Add(t, big.NewRat(180, 1))
	t.Mul(t, new(big.Rat).SetInt(new(big.Int).Lsh(big.NewInt(1), uint(h))))
	t.Quo(t, big.NewRat(360, 1))
	fl := FloorRat(t)
	d := new(big.Rat).Sub(t, new(big.Rat).SetInt(fl))
	df, _ := d.Float64()
	if df > 0.5 {
		df = 1 - df
	}
	return fl.Int64(), df
}

// OnColumnBoundary reports whether lon lies exactly (in rationals) on a column boundary of zoom h.
func OnColumnBoundary(lon float64, h int64) bool {
	if lon == 180 {
		lon = -180
	}
	t := new(big.Rat).SetFloat64(lon)
	t.Add(t, big.NewRat(180, 1))
	t.Mul(t, new(big.Rat).SetInt(new(big.Int).Lsh(big.NewInt(1), uint(h))))
	t.Quo(t, big.NewRat(360, 1))
	return t.IsInt()
}

// XBand is the half-width (in index units) inside which the library's float evaluation of the column may fall on
// either side of a boundary: 2^h * 2^-49.
func XBand(h int64) float64 { return math.Ldexp(1, int(h)-49) }

// YFloat is the closed-form Mercator row coordinate 2^h*(1 - asinh(tan(lat))/pi)/2 (lat in degrees).
func YFloat(lat float64, h int64) float64 {
	// sign-symmetric log form (no cancellation on either hemisphere); deliberately not the library's expression
	phi := math.Abs(lat) * math.Pi / 180
	m := math.Log(math.Tan(phi) + 1/math.Cos(phi))
	if lat < 0 {
		m = -m
	}
	return math.Ldexp((1-m/math.Pi)/2, int(h))
}

// YBand is the half-width (in index units) of the tolerance band of the row: 2^h * 8e-15.
func YBand(h int64) float64 { return math.Ldexp(8e-15, int(h)) }

// YCandidates returns the admissible rows for lat at zoom h: floor(y-delta) and floor(y+delta).
func YCandidates(lat float64, h int64) (lo, hi int64) {
	if lat == 0 { // asinh(tan 0) = 0 exactly: the equator is the north edge of row 2^(h-1)
		if h == 0 {
			return 0, 0
		}
		return int64(1) << uint(h-1), int64(1) << uint(h-1)
	}
	y := YFloat(lat, h)
	d := YBand(h)
	return int64(math.Floor(y - d)), int64(math.Floor(y + d))
}

// LatOfRow is the latitude (degrees) of the north edge of row y at zoom h: atan(sinh(pi*(1-2y/2^h))).
func LatOfRow(y float64, h int64) float64 {
	return math.Atan(math.Sinh(math.Pi*(1-2*math.Ldexp(y, -int(h))))) * 180 / math.Pi
}

// LonOfColExact is the exact longitude (as the nearest float) of the west edge of column x: 360x/2^h - 180.
func LonOfColExact(x, h int64) float64 {
	t := new(big.Rat).SetFrac(new(big.Int).Mul(big.NewInt(360), big.NewInt(x)), new(big.Int).Lsh(big.NewInt(1), uint(h)))
	t.Sub(t, big.NewRat(180, 1))
	f, _ := t.Float64()
	return f
}

// FIndexExact is floor(alt*2^v/2^25), exact.
func FIndexExact(alt float64, v int64) int64 {
	t := new(big.Rat).SetFloat64(alt)
	t.Mul(t, pow2Rat(v-25))
	return FloorRat(t).Int64()
}

// TruncLat is the documented storage rule of a latitude: cut toward zero at 1e-10 degrees.
func TruncLat(lat float64) float64 {
	if lat > 0 {
		return math.Floor(lat*1e10) / 1e10
	}
	return math.Ceil(lat*1e10) / 1e10
}

// MercY is the spherical Mercator northing R*asinh(tan(lat)) on radius 6378137 m; MercX the easting R*lon.
const EarthR = 6378137.0

func MercX(lon float64) float64 { return EarthR * lon * math.Pi / 180 }
func MercY(lat float64) float64 { return EarthR * math.Asinh(math.Tan(lat*math.Pi/180)) }
