package ref

import "math"

// V3 is a 3-vector in metres (ECEF).
type V3 struct{ X, Y, Z float64 }

func (a V3) Sub(b V3) V3        { return V3{a.X - b.X, a.Y - b.Y, a.Z - b.Z} }
func (a V3) Add(b V3) V3        { return V3{a.X + b.X, a.Y + b.Y, a.Z + b.Z} }
func (a V3) Mul(f float64) V3   { return V3{a.X * f, a.Y * f, a.Z * f} }
func (a V3) Dot(b V3) float64   { return a.X*b.X + a.Y*b.Y + a.Z*b.Z }
func (a V3) Cross(b V3) V3      { return V3{a.Y*b.Z - a.Z*b.Y, a.Z*b.X - a.X*b.Z, a.X*b.Y - a.Y*b.X} }
func (a V3) Norm() float64      { return math.Sqrt(a.Dot(a)) }
func clamp01(t float64) float64 { return math.Max(0, math.Min(1, t)) }

// ECEF converts WGS84 geodetic coordinates (degrees, metres) to earth-centred earth-fixed metres.
func ECEF(lonDeg, latDeg, h float64) V3 {
	const a = 6378137.0
	const f = 1 / 298.257223563
	e2 := f * (2 - f)
	lon, lat := lonDeg*math.Pi/180, latDeg*math.Pi/180
	sl, cl := math.Sin(lat), math.Cos(lat)
	n := a / math.Sqrt(1-e2*sl*sl)
	return V3{(n + h) * cl * math.Cos(lon), (n + h) * cl * math.Sin(lon), (n*(1-e2) + h) * sl}
}

// PointTriangle is the distance from p to triangle abc (closest-point regions, Ericson).
func PointTriangle(p, a, b, c V3) float64 {
	ab, ac, ap := b.Sub(a), c.Sub(a), p.Sub(a)
	d1, d2 := ab.Dot(ap), ac.Dot(ap)
	if d1 <= 0 && d2 <= 0 {
		return ap.Norm()
	}
	bp := p.Sub(b)
	d3, d4 := ab.Dot(bp), ac.Dot(bp)
	if d3 >= 0 && d4 <= d3 {
		return bp.Norm()
	}
	vc := d1*d4 - d3*d2
	if vc <= 0 && d1 >= 0 && d3 <= 0 {
		v := d1 / (d1 - d3)
		return p.Sub(a.Add(ab.Mul(v))).Norm()
	}
	cp := p.Sub(c)
	d5, d6 := ab.Dot(cp), ac.Dot(cp)
	if d6 >= 0 && d5 <= d6 {
		return cp.Norm()
	}
	vb := d5*d2 - d1*d6
	if vb <= 0 && d2 >= 0 && d6 <= 0 {
		w := d2 / (d2 - d6)
		return p.Sub(a.Add(ac.Mul(w))).Norm()
	}
	va := d3*d6 - d5*d4
	if va <= 0 && (d4-d3) >= 0 && (d5-d6) >= 0 {
		w := (d4 - d3) / ((d4 - d3) + (d5 - d6))
		return p.Sub(b.Add(c.Sub(b).Mul(w))).Norm()
	}
	den := 1 / (va + vb + vc)
	v, w := vb*den, vc*den
	return p.Sub(a.Add(ab.Mul(v)).Add(ac.Mul(w))).Norm()
}

// SegSeg is the distance between segments p1q1 and p2q2.
func SegSeg(p1, q1, p2, q2 V3) float64 {
	d1, d2, r := q1.Sub(p1), q2.Sub(p2), p1.Sub(p2)
	a, e, f := d1.Dot(d1), d2.Dot(d2), d2.Dot(r)
	var s, t float64
	const eps = 1e-300
	if a <= eps && e <= eps {
		return r.Norm()
	}
	if a <= eps {
		t = clamp01(f / e)
	} else {
		c := d1.Dot(r)
		if e <= eps {
			s = clamp01(-c / a)
		} else {
			b := d1.Dot(d2)
			den := a*e - b*b
			if den > 0 {
				s = clamp01((b*f - c*e) / den)
			}
			t = (b*s + f) / e
			if t < 0 {
				t, s = 0, clamp01(-c/a)
			} else if t > 1 {
				t, s = 1, clamp01((b-c)/a)
			}
		}
	}
	return p1.Add(d1.Mul(s)).Sub(p2.Add(d2.Mul(t))).Norm()
}

// SegTriangle is the distance between segment pq and triangle abc.
func SegTriangle(p, q, a, b, c V3) float64 {
	// piercing test
	n := b.Sub(a).Cross(c.Sub(a))
	dp, dq := n.Dot(p.Sub(a)), n.Dot(q.Sub(a))
	if dp*dq <= 0 && dp != dq {
		t := dp / (dp - dq)
		x := p.Add(q.Sub(p).Mul(t))
		// inside test by barycentric signs
		if n.Dot(b.Sub(a).Cross(x.Sub(a))) >= 0 && n.Dot(c.Sub(b).Cross(x.Sub(b))) >= 0 && n.Dot(a.Sub(c).Cross(x.Sub(c))) >= 0 {
			return 0
		}
	}
	d := math.Min(PointTriangle(p, a, b, c), PointTriangle(q, a, b, c))
	d = math.Min(d, SegSeg(p, q, a, b))
	d = math.Min(d, SegSeg(p, q, b, c))
	return math.Min(d, SegSeg(p, q, c, a))
}

// SegQuadHull is the distance between segment pq and the hull surface of four points (minimum over the four
// triangles they span). It is a lower bound of the distance to any two-triangle footprint of the same corners.
func SegQuadHull(p, q V3, c [4]V3) float64 {
	d := SegTriangle(p, q, c[0], c[1], c[2])
	d = math.Min(d, SegTriangle(p, q, c[0], c[2], c[3]))
	d = math.Min(d, SegTriangle(p, q, c[0], c[1], c[3]))
	return math.Min(d, SegTriangle(p, q, c[1], c[2], c[3]))
}
